SPECIFICATION MCSpec
INVARIANT TypeOK NoneRunBounded PrefixDepth
PROPERTY Resync
CHECK_DEADLOCK FALSE
CONSTANT Set2Next <- BrokenSet2Next
