
