---------------------------- MODULE Props_Scan ----------------------------
(***************************************************************************)
(* C07, C19, C13 evaluated by TLC on the automata extracted from the real  *)
(* decoders (GRAPH1 = ScancodeSet1, GRAPH2 = ScancodeSet2).  No reference  *)
(* key table is used: these predicates speak about the implementation's    *)
(* own behaviour (plus, for C13, the i8042 translation table).             *)
(* Each ASSUME prints every violating case and is FALSE if there is one.    *)
(***************************************************************************)
EXTENDS ScanProps, Report, IOUtils

G1 == ndJsonDeserialize(IOEnv.GRAPH1)
G2 == ndJsonDeserialize(IOEnv.GRAPH2)
O1(x, b) == G1[x].out[b + 1]      N1(x, b) == G1[x].post[b + 1]
O2(x, b) == G2[x].out[b + 1]      N2(x, b) == G2[x].post[b + 1]
S1 == { x \in 1..Len(G1) : G1[x].expanded }
S2 == { x \in 1..Len(G2) : G2[x].expanded }
Bytes == 0..255
(* closed = every transition leads to an expanded state (no panic, no cap) *)
Closed1 == \A x \in S1, b \in Bytes : N1(x, b) \in S1
Closed2 == \A x \in S2, b \in Bytes : N2(x, b) \in S2

NoneR == <<"none">>

(* C07 (i) an event or error puts the decoder back into its initial state (state 1) *)
(* "back in its initial condition" = behaviourally equivalent to the initial state: same class of
   the extracted automaton's Moore partition (computed generically by the harness), so that a
   rendering that is not canonical cannot raise a false alarm *)
ResyncBad(G, Out(_, _), Next(_, _), S) ==
  { xb \in S \X Bytes : /\ Out(xb[1], xb[2]) # NoneR /\ Next(xb[1], xb[2]) # 0
                         /\ G[Next(xb[1], xb[2])].cls # G[1].cls }
C07_Resync1 == ReportAll(ResyncBad(G1, O1, N1, S1), LAMBDA xb :
   [prop |-> "C07", kind |-> "resync", comp |-> "set1", access |-> G1[xb[1]].access,
    input |-> xb[2], observed |-> O1(xb[1], xb[2]), post |-> G1[N1(xb[1], xb[2])].id])
C07_Resync2 == ReportAll(ResyncBad(G2, O2, N2, S2), LAMBDA xb :
   [prop |-> "C07", kind |-> "resync", comp |-> "set2", access |-> G2[xb[1]].access,
    input |-> xb[2], observed |-> O2(xb[1], xb[2]), post |-> G2[N2(xb[1], xb[2])].id])
(* C07 (ii) at most one (Set 1) / two (Set 2) consecutive "no event yet" results *)
C07_NoneRun1 == Closed1 => (NoneRunHolds(O1, N1, S1, 1)
   \/ Bad([prop |-> "C07", kind |-> "nonerun", comp |-> "set1", limit |-> 1]))
C07_NoneRun2 == Closed2 => (NoneRunHolds(O2, N2, S2, 2)
   \/ Bad([prop |-> "C07", kind |-> "nonerun", comp |-> "set2", limit |-> 2]))

(* C19 *)
C1 == Complete(O1, N1, 1, 3)
C2 == Complete(O2, N2, 1, 4)
C19_Inj1 == Closed1 => ReportAll(SeqInjectiveWitness(C1), LAMBDA e :
   [prop |-> "C19", kind |-> "injective", comp |-> "set1", event |-> e,
    seqs |-> { c[1] : c \in { cc \in C1 : cc[2] = e } }])
C19_Inj2 == Closed2 => ReportAll(SeqInjectiveWitness(C2), LAMBDA e :
   [prop |-> "C19", kind |-> "injective", comp |-> "set2", event |-> e,
    seqs |-> { c[1] : c \in { cc \in C2 : cc[2] = e } }])
C19_MB1 == Closed1 => ReportAll(MakeBreak1Bad(C1), LAMBDA c :
   [prop |-> "C19", kind |-> "makebreak", comp |-> "set1", seq |-> c[1], result |-> c[2]])
C19_MB2 == Closed2 => ReportAll(MakeBreak2Bad(C2), LAMBDA c :
   [prop |-> "C19", kind |-> "makebreak", comp |-> "set2", seq |-> c[1], result |-> c[2]])

(* C19 after a history: the same two statements from every state the decoder can be in after ONE
   complete key sequence (with a decoder that is back in its initial condition after every
   sequence these are all behaviourally the initial state and are skipped; a decoder that keeps
   something across sequences - a lookup memo, a latch - is re-examined from up to 40 of them) *)
RECURSIVE EndOf(_, _, _)
EndOf(Next(_, _), x, bs) == IF bs = <<>> \/ x = 0 THEN x ELSE EndOf(Next, Next(x, bs[1]), Tail(bs))
After1(G, C, Next(_, _)) ==
  LET ends == { EndOf(Next, 1, c[1]) : c \in C } \ {0}
      fresh == { x \in ends : G[x].expanded /\ G[x].cls # G[1].cls }
  IN  IF Cardinality(fresh) <= 40 THEN fresh
      ELSE { x \in fresh : Cardinality({ y \in fresh : y < x }) < 40 }
C19_Hist1 == Closed1 => \A x \in After1(G1, C1, N1) :
   LET Cx == Complete(O1, N1, x, 3) IN
   /\ ReportAll(SeqInjectiveWitness(Cx), LAMBDA e :
        [prop |-> "C19", kind |-> "injective", comp |-> "set1", after |-> G1[x].access, event |-> e,
         seqs |-> { c[1] : c \in { cc \in Cx : cc[2] = e } }])
   /\ ReportAll(MakeBreak1Bad(Cx), LAMBDA c :
        [prop |-> "C19", kind |-> "makebreak", comp |-> "set1", after |-> G1[x].access, seq |-> c[1], result |-> c[2]])
C19_Hist2 == Closed2 => \A x \in After1(G2, C2, N2) :
   LET Cx == Complete(O2, N2, x, 4) IN
   /\ ReportAll(SeqInjectiveWitness(Cx), LAMBDA e :
        [prop |-> "C19", kind |-> "injective", comp |-> "set2", after |-> G2[x].access, event |-> e,
         seqs |-> { c[1] : c \in { cc \in Cx : cc[2] = e } }])
   /\ ReportAll(MakeBreak2Bad(Cx), LAMBDA c :
        [prop |-> "C19", kind |-> "makebreak", comp |-> "set2", after |-> G2[x].access, seq |-> c[1], result |-> c[2]])

(* C13 *)
C13_Fwd == (Closed1 /\ Closed2) => ReportAll(XlateForwardBad(O2, N2, 1, O1, N1, 1), LAMBDA x :
   [prop |-> "C13", kind |-> "xlate-forward", prefix |-> x[1], code2 |-> x[2], form |-> x[3],
    code1 |-> Xlate(x[2]),
    o2 |-> LastOut(O2, N2, 1, PfxSeq(x[1]) \o (IF x[3] = "make" THEN <<x[2]>> ELSE <<240, x[2]>>)),
    o1 |-> LastOut(O1, N1, 1, PfxSeq(x[1]) \o <<Xlate(x[2]) + (IF x[3] = "make" THEN 0 ELSE 128)>>)])
C13_Conv == (Closed1 /\ Closed2) => ReportAll(XlateConverseBad(O2, N2, 1, O1, N1, 1), LAMBDA x :
   [prop |-> "C13", kind |-> "xlate-converse", prefix |-> x[1], code1 |-> x[2], form |-> x[3],
    pre |-> XlatePre(x[2]),
    o1 |-> LastOut(O1, N1, 1, PfxSeq(x[1]) \o <<x[2] + (IF x[3] = "make" THEN 0 ELSE 128)>>)])

ASSUME A1 == Note("@@S", [g1_states |-> Len(G1), g2_states |-> Len(G2),
                          complete1 |-> Cardinality(C1), complete2 |-> Cardinality(C2),
                          events1 |-> Cardinality({ c \in C1 : c[2][1] = "ev" }),
                          events2 |-> Cardinality({ c \in C2 : c[2][1] = "ev" }),
                          closed1 |-> Closed1, closed2 |-> Closed2])
(* evaluate all of them (each prints its violations), then fail if any failed *)
Results == << C07_Resync1, C07_Resync2, C07_NoneRun1, C07_NoneRun2,
              C19_Inj1, C19_Inj2, C19_MB1, C19_MB2, C19_Hist1, C19_Hist2, C13_Fwd, C13_Conv >>
ASSUME AllHold == \A k \in 1..Len(Results) : Results[k]
=============================================================================
