---------------------------- MODULE MC_Layouts ----------------------------
(* TLC proves that the deterministic model satisfies the whole layout contract: one TLC    *)
(* state per (layout, key, mode) row = 10 x 124 x 2 rows of 512 cells.                      *)
EXTENDS LayoutModel, TLC

VARIABLES l, k, h
vars == <<l, k, h>>
Init == l \in Layouts /\ k \in Keys /\ h \in Modes
Next == UNCHANGED vars
Spec == Init /\ [][Next]_vars

C03 == C03Bad(Model, l, k, h) = {}
C09 == h = "Map" => (C09BadA(Model, l, k) = {} /\ C09BadB(Model, l, k) = {} /\ C09BadC(Model, l, k) = {})
C10 == C10Bad(Model, l, k, h) = {}
C11 == C11Bad(Model, l, k, h) = {}
C12 == k = "Escape" => C12Missing(Model, l, h) = {}
C15 == C15Bad(Model, l, k, h) = {}
C16 == C16Bad(Model, l, k, h) = {}
(* non-vacuity: the classes the predicates quantify over are populated *)
ASSUME NonVacuous ==
  /\ \A ll \in Layouts : Cardinality({ kk \in Keys : IsLetter(Model, ll, kk) }) = 26
  /\ \A ll \in Layouts : Cardinality({ kk \in Keys : CasePair(Model, ll, kk) }) >= 26
  /\ Cardinality({ kk \in Keys : CasePair(Model, "De105Key", kk) }) = 29
  /\ Cardinality({ kk \in Keys : CasePair(Model, "No105Key", kk) }) = 29
=============================================================================
