
