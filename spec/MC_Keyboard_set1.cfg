SPECIFICATION MCSpec
CONSTANT SetNo = 1
CONSTANT LayoutFn <- MCLayoutFn
CONSTANT LayoutIds <- MCLayoutIds
CONSTANT ByteAlpha <- QBytes
CONSTANT WordAlpha <- QWords
CONSTANT EventAlpha <- QEventsSmall
INVARIANT TypeOK
PROPERTY FrameErrorDropsByte ClearOnlyFraming ByteSkipsFraming AddWordLeavesRegister BitsLeaveEventStage EventTouchesOnlyEvent OnlyAcceptedBytesReachScancode WordEqualsByte
VIEW View
CHECK_DEADLOCK FALSE
