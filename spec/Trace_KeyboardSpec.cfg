SPECIFICATION TSpec
CONSTANT SetNo <- TheSet
CONSTANT LayoutFn <- RecLayoutFn
CONSTANT LayoutIds <- RecIds
INVARIANT ObsOK
POSTCONDITION Accepted
CHECK_DEADLOCK FALSE
