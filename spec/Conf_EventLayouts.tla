---------------------------- MODULE Conf_EventLayouts ----------------------------
(***************************************************************************)
(* C14 with the REAL layouts: what EventDecoder<AnyLayout>::process_keyevent *)
(* returns for a key press, in every one of the 512 x 2 decoder states     *)
(* (reached through the generic access paths of the TLC-exported event     *)
(* automaton), for every key and each of the ten layouts, must be exactly  *)
(* what that layout's map_keycode returns for (key, those modifiers, that  *)
(* mode) - the cell of the layout table extracted separately - and for the *)
(* nine modifier / lock keys the raw key itself (PauseBreak for NumLock    *)
(* under the hidden Ctrl).  1 269 760 cells, one TLC state per row.  This   *)
(* sees what the recording layout cannot: a decoder that post-processes    *)
(* the layout's answer, or shows the layout different modifiers than it    *)
(* reports.                                                                *)
(***************************************************************************)
EXTENDS Integers, Sequences, FiniteSets, KeyCodes, Report, IOUtils

EV == ndJsonDeserialize(IOEnv.EVT)        \* rows of form "event"
(* the installed layout object is AnyLayout(L): the reference is the table of THAT object (rows of
   form "any", the second block of 2480 rows), so that a dispatch slip inside AnyLayout is C17's
   business and not reported here a second time *)
PLall == ndJsonDeserialize(IOEnv.TABLE)
N == 2480
PL == [i \in 1..N |-> PLall[N + i]]
ASSUME Shape == Len(EV) = N /\ Len(PLall) >= 2 * N
                /\ \A i \in 1..N : EV[i].k = PL[i].k /\ EV[i].h = PL[i].h /\ EV[i].layout = PL[i].layout
                                   /\ EV[i].form = "event" /\ PL[i].form = "any"

VARIABLES lo, hi
vars == <<lo, hi>>
Init == lo = 1 /\ hi = N
Next == /\ lo < hi
        /\ LET mid == (lo + hi) \div 2 IN (lo' = lo /\ hi' = mid) \/ (lo' = mid + 1 /\ hi' = hi)
Spec == Init /\ [][Next]_vars

Expected(i, m) ==
  LET k == EV[i].k IN
  IF k = "NumpadLock" THEN (IF m >= 256 THEN Raw("PauseBreak") ELSE Raw("NumpadLock"))
  ELSE IF k \in ModKeys THEN Raw(k)
  ELSE PL[i].o[m + 1]
RowOK ==
  lo = hi =>
    LET i == lo
        bad == { m \in 0..511 : EV[i].o[m + 1] # Expected(i, m) } IN
    bad = {} \/ BadB([prop |-> IF \E m \in bad : EV[i].o[m + 1] = -1000000 THEN "C08" ELSE "C14", also |-> <<"C14">>,
                     kind |-> "event-real-layout", obj |-> EV[i].obj, layout |-> EV[i].layout, key |-> EV[i].k,
                     mode |-> EV[i].h, ncells |-> Cardinality(bad),
                     cells |-> { <<m, EV[i].o[m + 1], Expected(i, m)>> : m \in bad }])
ASSUME Stats == Note("@@S", [rows |-> N, cells |-> N * 512])
=============================================================================
