---------------------------- MODULE EventDecoder ----------------------------
(***************************************************************************)
(* The event stage (`EventDecoder<L>`): modifier tracking and hand-over to *)
(* the installed layout.  One action per public call.                      *)
(*                                                                         *)
(* The installed layout is a parameter (LayoutFn), not part of this        *)
(* module: C14 says precisely that the decoder returns whatever the        *)
(* layout returns for the key under the current modifiers and mode, so     *)
(* the decoder's specification must not know any layout.                   *)
(*                                                                         *)
(* Modifier state is an integer 0..511 (bit0 lshift, 1 rshift, 2 lctrl,    *)
(* 3 rctrl, 4 numlock, 5 capslock, 6 lalt, 7 ralt, 8 rctrl2).              *)
(***************************************************************************)
EXTENDS Integers, Sequences, FiniteSets, KeyCodes

CONSTANT LayoutFn(_, _, _, _)      \* (layout id, key, modifiers, mode) |-> decoded key (int)
CONSTANT LayoutIds                 \* the layout values that can be installed

P2e == <<1, 2, 4, 8, 16, 32, 64, 128, 256>>
Has(m, i) == (m \div P2e[i + 1]) % 2 = 1
SetBit(m, i) == IF Has(m, i) THEN m ELSE m + P2e[i + 1]
ClrBit(m, i) == IF Has(m, i) THEN m - P2e[i + 1] ELSE m
Toggle(m, i) == IF Has(m, i) THEN m - P2e[i + 1] ELSE m + P2e[i + 1]

(* which flag each momentary modifier key drives *)
FlagOf == [ LShift |-> 0, RShift |-> 1, LControl |-> 2, RControl |-> 3, LAlt |-> 6, RAltGr |-> 7,
            RControl2 |-> 8 ]
NUMLOCK == 4   CAPSLOCK == 5   HIDDENCTRL == 8
InitMods == 16                     \* NumLock on, everything else off
Modes == {"Map", "Ignore"}

NoneE == <<"none">>
KeyOut(d) == <<"key", d>>
NoQuery == <<"noq">>
Query(l, k, m, h) == <<"q", l, k, m, h>>

(* pure next-state / output functions of a key event *)
EvMods(m, code, st) ==
  IF code \in MomentaryModKeys /\ st = "Down" THEN SetBit(m, FlagOf[code])
  ELSE IF code \in MomentaryModKeys /\ st = "Up" THEN ClrBit(m, FlagOf[code])
  ELSE IF code = "CapsLock" /\ st = "Down" THEN Toggle(m, CAPSLOCK)
  ELSE IF code = "NumpadLock" /\ st = "Down" /\ ~Has(m, HIDDENCTRL) THEN Toggle(m, NUMLOCK)
  ELSE m

ConsultsLayout(code, st) == st = "Down" /\ code \notin ModKeys

EvOut(m, h, l, code, st) ==
  IF st # "Down" THEN NoneE
  ELSE IF code = "NumpadLock" THEN
         KeyOut(IF Has(m, HIDDENCTRL) THEN Raw("PauseBreak") ELSE Raw("NumpadLock"))   \* Pause inference
  ELSE IF code \in ModKeys THEN KeyOut(Raw(code))
  ELSE KeyOut(LayoutFn(l, code, m, h))

EvQuery(m, h, l, code, st) == IF ConsultsLayout(code, st) THEN Query(l, code, m, h) ELSE NoQuery

VARIABLES mods, mode, layout, eout, query
evars == <<mods, mode, layout, eout, query>>

EventInit(h0, l0) == mods = InitMods /\ mode = h0 /\ layout = l0 /\ eout = NoneE /\ query = NoQuery

KeyEvent(code, st) ==
  /\ mods' = EvMods(mods, code, st)
  /\ eout' = EvOut(mods, mode, layout, code, st)          \* pre-state modifiers, current mode/layout
  /\ query' = EvQuery(mods, mode, layout, code, st)
  /\ UNCHANGED <<mode, layout>>
SetCtrlHandling(h) == mode' = h /\ eout' = NoneE /\ query' = NoQuery /\ UNCHANGED <<mods, layout>>
ChangeLayout(l) == layout' = l /\ eout' = NoneE /\ query' = NoQuery /\ UNCHANGED <<mods, mode>>

EventNext == \/ \E code \in Keys, st \in KeyStates : KeyEvent(code, st)
             \/ \E h \in Modes : SetCtrlHandling(h)
             \/ \E l \in LayoutIds : ChangeLayout(l)

EventTypeOK == mods \in 0..511 /\ mode \in Modes /\ layout \in LayoutIds
=============================================================================
