SPECIFICATION LSpec
CONSTANT SendBytes = {28, 240, 224}
CONSTANT MaxFrames = 3
CONSTANT MaxFaults = 2
CONSTANT AllowDrop = TRUE
CONSTANT PromptTimeout = TRUE
INVARIANT TypeOK NoWrongByte FramesIndependent FaultFree
CHECK_DEADLOCK FALSE
