---------------------------- MODULE MC_World ----------------------------
EXTENDS World
Keys1 == {"A", "LShift", "RControl", "RAltGr", "NumpadLock", "CapsLock", "Pause", "PrintScreen", "Home", "Numpad7"}
KeysSmall == {"A", "LShift", "RControl", "NumpadLock", "Pause", "PrintScreen", "Numpad7"}
=============================================================================
