
