SPECIFICATION MCSpec
INVARIANT TypeOK NoneRunBounded PrefixDepth
PROPERTY Resync
CHECK_DEADLOCK FALSE
