SPECIFICATION WSpec
CONSTANT PhysKeys <- KeysSmall
CONSTANT MaxWire = 2
CONSTANT LayoutName = "Uk105Key"
INVARIANT TypeOK InSync SetIndependent NoErrors ModsTrackHeld PauseIsTransparent LocksCountPresses
PROPERTY OneDecodedPerSequence
VIEW View
CHECK_DEADLOCK FALSE
