---------------------------- MODULE Conf_Event ----------------------------
(***************************************************************************)
(* (G) Conformance of the real event stage with EventDecoder.              *)
(* GRAPH = reachable graph of EventDecoder<Recording> (COMP = "event",     *)
(* alphabet: 124 keys x 3 states, set_ctrl_handling x 2, change_layout x 2)*)
(* or of Keyboard<Recording, ScancodeSet2> driven through                  *)
(* process_keyevent / set_ctrl_handling (COMP = "kb2"), where the public   *)
(* getters expose modifiers and mode and are compared by value (C04).      *)
(* The recording layout reports which (layout, key, modifiers, mode) it    *)
(* was consulted with on every step; the product invariant requires result *)
(* AND consulted arguments to equal the specification's for every input in *)
(* every product state (C14), and the post-modifiers to match (C04).       *)
(***************************************************************************)
EXTENDS EventDecoder, Report, IOUtils

G == ndJsonDeserialize(IOEnv.GRAPH)
Alpha == JsonDeserialize(IOEnv.ALPHA)       \* the input alphabet, as the harness used it
Comp == IOEnv.COMP
NA == Len(Alpha)

(* the recording layout's token: names the installed layout and the key *)
RecLayoutFn(l, k, m, h) == 983040 + l * 128 + KeyIndex(k)

RecIds == {0, 1}

VARIABLE i
cvars == <<mods, mode, layout, eout, query, i>>
View == <<mods, mode, layout, i>>

SOut(a) == LET x == Alpha[a] IN
  IF x[1] = "key" THEN EvOut(mods, mode, layout, x[2], x[3]) ELSE NoneE
SQuery(a) == LET x == Alpha[a] IN
  IF x[1] = "key" THEN EvQuery(mods, mode, layout, x[2], x[3]) ELSE NoQuery
SModsAfter(a) == LET x == Alpha[a] IN IF x[1] = "key" THEN EvMods(mods, x[2], x[3]) ELSE mods
SModeAfter(a) == LET x == Alpha[a] IN IF x[1] = "mode" THEN x[2] ELSE mode

Step(a) == LET x == Alpha[a] IN
  CASE x[1] = "key" -> KeyEvent(x[2], x[3])
    [] x[1] = "mode" -> SetCtrlHandling(x[2])
    [] x[1] = "layout" -> ChangeLayout(x[2])

(* the mode the object was constructed with ("Map" unless the component name ends in "_ign") *)
InitMode == IF Comp \in {"event_ign", "kb2_ign"} THEN "Ignore" ELSE "Map"
CInit == EventInit(InitMode, 0) /\ i = 1
CNext == \E a \in 1..NA : G[i].expanded /\ G[i].post[a] # 0 /\ Step(a) /\ i' = G[i].post[a]
CSpec == CInit /\ [][CNext]_cvars

(* which property an I/O difference belongs to: a wrong/missing/extra decoded key or wrong
   consulted arguments is C14; a panic is C08 (and C14) *)
Conforms ==
  IF ~G[i].expanded
  THEN BadB([prop |-> "C14", also |-> <<"C04">>, kind |-> "unbounded", comp |-> Comp, access |-> G[i].access])
  ELSE ReportAllB({ a \in 1..NA : G[i].out[a] # SOut(a) \/ G[i].q[a] # SQuery(a) },
         LAMBDA a : [prop |-> IF G[i].out[a][1] = "panic" THEN "C08" ELSE "C14", also |-> <<"C14">>,
                     kind |-> "event-io", comp |-> Comp, access |-> G[i].access, input |-> Alpha[a],
                     ctx |-> <<mods, mode, layout>>,
                     observed |-> G[i].out[a], expected |-> SOut(a),
                     observed_query |-> G[i].q[a], expected_query |-> SQuery(a)])

(* C04 through the public getters (Keyboard): reported modifiers and mode equal the spec's *)
ObsMatches ==
  (G[i].obs # <<>> /\ G[i].obs[1] >= 0) =>
     ( (G[i].obs[1] = mods /\ G[i].obs[2] = mode)
       \/ BadB([prop |-> "C04", kind |-> "getter", comp |-> Comp, access |-> G[i].access,
               ctx |-> <<mods, mode, layout>>, observed |-> G[i].obs, expected |-> <<mods, mode>>]) )
ModeMatches ==
  (G[i].obs # <<>> /\ G[i].obs[1] < 0) =>
     ( G[i].obs[2] = mode
       \/ BadB([prop |-> "C14", kind |-> "getter", comp |-> Comp, access |-> G[i].access,
               ctx |-> <<mods, mode, layout>>, observed |-> G[i].obs, expected |-> <<-1, mode>>]) )

(* C04 through what the layout is shown: in every product state, pressing a plain key shows the
   layout the spec's modifier word - already part of Conforms (query comparison); here the
   mismatch is attributed to C04 when only the modifier argument differs *)
ModsShown ==
  G[i].expanded =>
  ReportAllB({ a \in 1..NA : /\ G[i].q[a][1] = "q" /\ SQuery(a)[1] = "q" /\ G[i].q[a][4] # SQuery(a)[4] },
    LAMBDA a : [prop |-> "C04", kind |-> "mods-shown", comp |-> Comp, access |-> G[i].access,
                input |-> Alpha[a], ctx |-> <<mods, mode, layout>>,
                observed |-> G[i].q[a][4], expected |-> SQuery(a)[4]])

AllProps == LET r == << Conforms, ObsMatches, ModeMatches, ModsShown >> IN \A j \in 1..Len(r) : r[j]

ASSUME Stats == Note("@@S", [impl_states |-> Len(G), alphabet |-> NA])
=============================================================================
