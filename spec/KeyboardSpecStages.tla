---------------------------- MODULE KeyboardSpecStages ----------------------------
(***************************************************************************)
(* The three stage SPECIFICATIONS packaged as the automata Keyboard.tla    *)
(* expects: frame state = bit sequence, scancode state = prefix context,   *)
(* event state = <<modifiers, mode, layout>>.                              *)
(***************************************************************************)
EXTENDS Integers, Sequences, FiniteSets, KeyCodes

CONSTANTS SetNo, LayoutFn(_, _, _, _), LayoutIds

F == INSTANCE Ps2Frame WITH bits <- <<>>, fout <- <<"none">>
S1 == INSTANCE Set1Decoder WITH ctx <- "Start", sout <- <<"none">>
S2 == INSTANCE Set2Decoder WITH ctx <- "Start", sout <- <<"none">>
E == INSTANCE EventDecoder WITH mods <- 16, mode <- "Map", layout <- 0, eout <- <<"none">>, query <- <<"noq">>

SpFInit == <<>>
SpFBitOut(bs, b) == F!AddBitOut(bs, b)
SpFBitNext(bs, b) == F!AddBitNext(bs, b)
SpFClear(bs) == <<>>
SpFWordOut(w) == F!CheckWord(w)

SpSInit == "Start"
SpSOut(c, y) == IF SetNo = 2 THEN S2!Set2Out(c, y) ELSE S1!Set1Out(c, y)
SpSNext(c, y) == IF SetNo = 2 THEN S2!Set2Next(c, y) ELSE S1!Set1Next(c, y)
SpContexts == IF SetNo = 2 THEN S2!Ctx2 ELSE S1!Ctx1

SpEInit == <<16, "Map", 0>>
SpEKeyOut(e, code, st) == E!EvOut(e[1], e[2], e[3], code, st)
SpEKeyNext(e, code, st) == <<E!EvMods(e[1], code, st), e[2], e[3]>>
SpEModeNext(e, h) == <<e[1], h, e[3]>>
SpEQuery(e, code, st) == E!EvQuery(e[1], e[2], e[3], code, st)
=============================================================================
