---------------------------- MODULE Conf_Isolation ----------------------------
(***************************************************************************)
(* C18, per-operation non-interference, exhaustive in the operations: for  *)
(* every sampled context of a real Keyboard (frame state x scancode        *)
(* context x event state; all 2047 x 6/3 x 4 in the thorough tier) the     *)
(* harness applied EVERY input of every entry point (372 key events, 2     *)
(* modes, 256 bytes, 2048 words, 2 bits, clear = 2681 operations) and      *)
(* recorded, as ranges of operation numbers, for which of them each        *)
(* stage's opaque id changed and for which the result differs from the     *)
(* result in the reference context (only the stage the call reads keeps    *)
(* its state).  Judged here:                                               *)
(*   - a stage may change only under the operations that feed it           *)
(*     (frame: add_bit, clear; scancode: add_byte, add_word, add_bit;      *)
(*      event: process_keyevent, set_ctrl_handling) - in particular        *)
(*     add_word never touches the bit register and no event, byte or word  *)
(*     disturbs a partial frame;                                           *)
(*   - no result depends on the state of a stage the call does not read.   *)
(***************************************************************************)
EXTENDS Integers, Sequences, FiniteSets, Report, IOUtils

R == ndJsonDeserialize(IOEnv.ISO)
Comp == IOEnv.COMP

EventsR == <<1, 374>>      \* process_keyevent (1..372), set_ctrl_handling (373, 374)
BytesR == <<375, 630>>
WordsR == <<631, 2678>>
BitsR == <<2679, 2680>>
ClearR == <<2681, 2681>>
Meets(r, q) == r[1] <= q[2] /\ q[1] <= r[2]
(* operation ranges under which each stage must NOT change *)
Forbidden(s) == CASE s = 1 -> {EventsR, BytesR, WordsR}
                  [] s = 2 -> {EventsR, ClearR}
                  [] s = 3 -> {BytesR, WordsR, BitsR, ClearR}
BadChange(rec) == { <<s, r>> \in UNION { { <<s, rec.changed[s][j]>> : j \in 1..Len(rec.changed[s]) } : s \in 1..3 } :
                      \E q \in Forbidden(s) : Meets(r, q) }

ASSUME Shape == \A i \in 1..Len(R) : R[i].nops = 2681
ASSUME Stats == Note("@@S", [contexts |-> Len(R), operations |-> 2681, applications |-> Len(R) * 2681])
ASSUME Isolated ==
  LET res == <<
    ReportAll({ i \in 1..Len(R) : BadChange(R[i]) # {} }, LAMBDA i :
       [prop |-> "C18", kind |-> "isolation-stage", comp |-> Comp, bits |-> R[i].bits, bytes |-> R[i].bytes,
        ev |-> R[i].ev, changed |-> BadChange(R[i]),
        note |-> "a stage changed under an operation that does not feed it (stage, [first op, last op])"]),
    ReportAll({ i \in 1..Len(R) : R[i].diff # <<>> }, LAMBDA i :
       [prop |-> "C18", kind |-> "isolation-result", comp |-> Comp, bits |-> R[i].bits, bytes |-> R[i].bytes,
        ev |-> R[i].ev, ops |-> R[i].diff,
        note |-> "a result depends on the state of a stage the call does not read"]),
    ReportAll({ i \in 1..Len(R) : R[i].panics # <<>> }, LAMBDA i :
       [prop |-> "C08", also |-> <<"C18">>, kind |-> "isolation-panic", comp |-> Comp, bits |-> R[i].bits,
        bytes |-> R[i].bytes, ev |-> R[i].ev, ops |-> R[i].panics]) >>
  IN \A j \in 1..Len(res) : res[j]
=============================================================================
