---------------------------- MODULE LayoutModel ----------------------------
(***************************************************************************)
(* A deterministic, implementation-shaped model of the ten layouts:        *)
(* Model(l, k, m, h).  Rule order: character-less keys, editing keys,      *)
(* numpad rule, keys the board does not have (raw), then for main-block    *)
(* keys: Ctrl-letter mapping first, then AltGr / Shift levels, CapsLock as *)
(* Shift-inversion on case pairs only.                                     *)
(*                                                                         *)
(* TLC proves that Model satisfies the whole contract of Layouts.tla over  *)
(* all cells (MC_Layouts) - so the contract is satisfiable and the         *)
(* reference data is self-consistent (e.g. C12 forces the German reference *)
(* to contain AltGr { [ ] } \ ).  Where the properties leave a cell open    *)
(* (Shift+AltGr together, Numpad5 without NumLock) Model makes one         *)
(* documented choice; disagreement with the code there is MODEL-DRIFT      *)
(* (informational), never a violation.                                     *)
(***************************************************************************)
EXTENDS Layouts

Pick(S) == CHOOSE x \in S : \A y \in S : x <= y        \* representative of a reference cell
(* shipped representatives where the reference is a set *)
ShippedChoice(l, k, lvl, S) ==
  IF Cardinality(S) = 1 THEN Pick(S)
  ELSE CASE l = "Uk105Key" /\ k = "Oem8" -> 124           \* '|'
         [] l = "Jis109Key" /\ k = "OemPlus" -> 175       \* overline
         [] l = "Azerty" /\ k = "Oem8" -> 178             \* superscript two
         [] OTHER -> Pick(S)

MBase(l, k) == ShippedChoice(l, k, 1, RefBase(l, k))
MShift(l, k) == ShippedChoice(l, k, 2, RefShift(l, k))
MHasAltGr(l, k) == RefAltGr(l, k) # {}
MAltGr(l, k) == ShippedChoice(l, k, 3, RefAltGr(l, k))
MCasePair(l, k) == Upper(MBase(l, k)) # MBase(l, k) /\ MShift(l, k) = Upper(MBase(l, k))
(* layouts whose shipped code tests Shift before AltGr (relevant only to Shift+AltGr, which no
   property constrains) *)
ShiftFirst == {"No105Key", "FiSe105Key"}

MDecimal(l) == IF l \in {"No105Key", "FiSe105Key"} THEN 44 ELSE 46

Model(l, k, m, h) ==
  IF k \in Charless THEN Raw(k)
  ELSE IF k \in EditingKeys THEN EditingChar[k]
  ELSE IF k \in NumpadDigits THEN
         (IF Nl(m) \/ k = "Numpad5" THEN NumpadDigitChar[k] ELSE Raw(NavAlias[k]))
  ELSE IF k \in NumpadOps THEN NumpadOpChar[k]
  ELSE IF k = "NumpadEnter" THEN EditingChar["Return"]
  ELSE IF k = "NumpadPeriod" THEN (IF Nl(m) THEN MDecimal(l) ELSE 127)
  ELSE IF k \notin MainBlock(l) THEN Raw(k)
  ELSE LET b == MBase(l, k)  s == MShift(l, k) IN
       IF h = "Map" /\ Ct(m) /\ b \in 97..122 THEN b - 96
       ELSE IF MHasAltGr(l, k) /\ Ag(m) /\ ~(Sh(m) /\ l \in ShiftFirst) THEN MAltGr(l, k)
       ELSE IF MCasePair(l, k) THEN (IF IsCaps(m) THEN s ELSE b)
       ELSE IF Sh(m) THEN s ELSE b
=============================================================================
