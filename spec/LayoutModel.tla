---------------------------- MODULE LayoutModel ----------------------------
(***************************************************************************)
(* A deterministic, implementation-shaped model of the ten layouts:        *)
(* Model(l, k, m, h).  Rule order: character-less keys, editing keys,      *)
(* numpad rule, keys the board does not have (raw), then for main-block    *)
(* keys: Ctrl-letter mapping first, then AltGr / Shift levels, CapsLock as *)
(* Shift-inversion on case pairs only.                                     *)
(*                                                                         *)
(* TLC proves that Model satisfies the whole contract of Layouts.tla over  *)
(* all cells (MC_Layouts) - so the contract is satisfiable and the         *)
(* reference data is self-consistent (e.g. C12 forces the German reference *)
(* to contain AltGr { [ ] } \ ).  Where the properties leave a cell open    *)
(* (Shift+AltGr together, Numpad5 without NumLock) Model makes one         *)
(* documented choice; disagreement with the code there is MODEL-DRIFT      *)
(* (informational), never a violation.                                     *)
(***************************************************************************)
EXTENDS Layouts

Pick(S) == CHOOSE x \in S : \A y \in S : x <= y        \* representative of a reference cell
(* shipped representatives where the reference is a set *)
ShippedChoice(l, k, lvl, S) ==
  IF Cardinality(S) = 1 THEN Pick(S)
  ELSE CASE l = "Uk105Key" /\ k = "Oem8" -> 124           \* '|'
         [] l = "Jis109Key" /\ k = "OemPlus" -> 175       \* overline
         [] l = "Azerty" /\ k = "Oem8" -> 178             \* superscript two
         [] OTHER -> Pick(S)

(* per (layout, key) data tabulated once: <<base, shift, altgr or -1, case pair?>> *)
MTab == [l \in Layouts |-> [k \in MainBlock(l) |->
           LET b == ShippedChoice(l, k, 1, RefBase(l, k))
               s == ShippedChoice(l, k, 2, RefShift(l, k))
               a == IF RefAltGr(l, k) = {} THEN -1 ELSE ShippedChoice(l, k, 3, RefAltGr(l, k))
           IN  <<b, s, a, Upper(b) # b /\ s = Upper(b)>>]]
MBase(l, k) == MTab[l][k][1]
MShift(l, k) == MTab[l][k][2]
MHasAltGr(l, k) == MTab[l][k][3] >= 0
MAltGr(l, k) == MTab[l][k][3]
MCasePair(l, k) == MTab[l][k][4]
(* layouts whose shipped code tests Shift before AltGr on symbol keys (relevant only to Shift+AltGr,
   which no property constrains); letters always test AltGr first *)
ShiftFirst == {"No105Key", "FiSe105Key"}
MainOf == [l \in Layouts |-> MainBlock(l)]

MDecimal(l) == IF l \in {"No105Key", "FiSe105Key"} THEN 44 ELSE 46

Model(l, k, m, h) ==
  IF k \in Charless THEN Raw(k)
  ELSE IF k \in EditingKeys THEN EditingChar[k]
  ELSE IF k \in NumpadDigits THEN
         (IF Nl(m) \/ k = "Numpad5" THEN NumpadDigitChar[k] ELSE Raw(NavAlias[k]))
  ELSE IF k \in NumpadOps THEN NumpadOpChar[k]
  ELSE IF k = "NumpadEnter" THEN EditingChar["Return"]
  ELSE IF k = "NumpadPeriod" THEN (IF Nl(m) THEN MDecimal(l) ELSE 127)
  ELSE IF k \notin MainOf[l] THEN Raw(k)
  ELSE LET t == MTab[l][k]  b == t[1]  s == t[2] IN
       IF h = "Map" /\ Ct(m) /\ b \in 97..122 THEN b - 96
       ELSE IF t[3] >= 0 /\ Ag(m) /\ ~(Sh(m) /\ ~t[4] /\ l \in ShiftFirst) THEN t[3]
       ELSE IF t[4] THEN (IF IsCaps(m) THEN s ELSE b)
       ELSE IF Sh(m) THEN s ELSE b
=============================================================================
