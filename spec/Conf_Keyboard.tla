---------------------------- MODULE Conf_Keyboard ----------------------------
(***************************************************************************)
(* (G) C18 by conformance: the real composite Keyboard<Recording, S>       *)
(* against the wiring of Keyboard.tla instantiated with the three real     *)
(* stages used separately (KeyboardImplStages).  GRAPH = reachable graph   *)
(* of the real composite over an alphabet ALPHA that mixes every entry     *)
(* point: add_bit(0/1), clear(), add_byte, add_word (valid frames and one  *)
(* frame per error kind), process_keyevent, set_ctrl_handling.  TLC        *)
(* explores the synchronous product <<stage states, composite state>> and  *)
(* requires equal results for every input in every product state, and      *)
(* equal public modifier/mode state.  Because the wiring leaves the stages *)
(* an action does not feed unchanged, and every later input is compared    *)
(* again, this is C18 for operation sequences of every length over the     *)
(* alphabet: a rejected frame, clear(), add_word or an event never         *)
(* disturbs a stage it does not feed.                                      *)
(***************************************************************************)
EXTENDS KeyboardImplStages, Report

G == ndJsonDeserialize(IOEnv.GRAPH)
Alpha == JsonDeserialize(IOEnv.ALPHA)
Comp == IOEnv.COMP
NA == Len(Alpha)

VARIABLES fs, ss, es, kout, i
cvars == <<fs, ss, es, kout, i>>
View == <<fs, ss, es, i>>

K == INSTANCE Keyboard WITH
       FInit <- ImFInit, FBitOut <- ImFBitOut, FBitNext <- ImFBitNext, FClear <- ImFClear, FWordOut <- ImFWordOut,
       SInit <- ImSInit, SOut <- ImSOut, SNext <- ImSNext,
       EInit <- ImEInit, EKeyOut <- ImEKeyOut, EKeyNext <- ImEKeyNext, EModeNext <- ImEModeNext

Step(a) == LET x == Alpha[a] IN
  CASE x[1] = "bit" -> K!KbAddBit(x[2])
    [] x[1] = "clear" -> K!KbClear
    [] x[1] = "word" -> K!KbAddWord(x[2])
    [] x[1] = "byte" -> K!KbAddByte(x[2])
    [] x[1] = "key" -> K!KbProcessKeyEvent(x[2], x[3])
    [] x[1] = "mode" -> K!KbSetCtrlHandling(x[2])

Expected(a) == LET x == Alpha[a] IN
  CASE x[1] = "bit" -> K!BitResult(fs, ss, x[2])
    [] x[1] = "clear" -> <<"none">>
    [] x[1] = "word" -> K!WordResult(ss, x[2])
    [] x[1] = "byte" -> ImSOut(ss, x[2])
    [] x[1] = "key" -> ImEKeyOut(es, x[2], x[3])
    [] x[1] = "mode" -> <<"none">>

(* a stage automaton that panicked standalone has no successor: do not follow *)
StageAlive == fs # 0 /\ ss # 0 /\ es # 0
CInit == K!KbInit /\ i = 1
CNext == \E a \in 1..NA : /\ G[i].expanded /\ G[i].post[a] # 0 /\ StageExplored(fs, ss, es)
                          /\ Step(a) /\ i' = G[i].post[a]
                          /\ fs' # 0 /\ ss' # 0 /\ es' # 0
CSpec == CInit /\ [][CNext]_cvars

Conforms ==
  IF ~G[i].expanded \/ ~StageExplored(fs, ss, es)
  THEN BadB([prop |-> "C18", kind |-> "unbounded", comp |-> Comp, access |-> G[i].access])
  ELSE ReportAllB({ a \in 1..NA : G[i].out[a] # Expected(a) },
         LAMBDA a : [prop |-> "C18", kind |-> "kb-io", comp |-> Comp, access |-> G[i].access, input |-> Alpha[a],
                     ctx |-> <<fs, ss, es>>,
                     observed |-> G[i].out[a], expected |-> Expected(a),
                     note |-> "composite result differs from the three real stages wired in sequence"])
ObsMatches ==
  ~StageExplored(fs, ss, es)
  \/ ((ImEMods(es) = -1 \/ G[i].obs[1] = ImEMods(es)) /\ G[i].obs[2] = ImEMode(es))
  \/ BadB([prop |-> "C18", kind |-> "kb-getter", comp |-> Comp, access |-> G[i].access,
          ctx |-> <<fs, ss, es>>, observed |-> G[i].obs, expected |-> <<ImEMods(es), ImEMode(es)>>])

AllProps == LET r == << Conforms, ObsMatches >> IN \A j \in 1..Len(r) : r[j]

ASSUME Stats == Note("@@S", [impl_states |-> Len(G), alphabet |-> NA, frame_states |-> Len(FG),
                             scan_states |-> Len(SG), event_states |-> Len(EG)])
=============================================================================
