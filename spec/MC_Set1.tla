---------------------------- MODULE MC_Set1 ----------------------------
(* Model-checking wrapper for the Set 1 decoder: C02, C07, C19 (spec side). *)
EXTENDS Set1Decoder, TLC

VARIABLE nrun
mcvars == <<ctx, sout, nrun>>

MCInit == Set1Init /\ nrun = 0
MCNext == \E b \in Bytes : Byte1(b) /\ nrun' = IF Set1Out(ctx, b) = None THEN nrun + 1 ELSE 0
MCSpec == MCInit /\ [][MCNext]_mcvars

TypeOK == Set1TypeOK /\ nrun \in 0..1
NoneRunBounded == nrun <= 1
Resync == [][sout' # None => ctx' = "Start"]_mcvars
PrefixDepth == (ctx \in {"E0", "E1"} => nrun = 1) /\ (ctx = "Start" => nrun = 0)

PrefixBytes == {E0, E1}
RECURSIVE Run1(_, _)
Run1(c, bs) == IF bs = <<>> THEN <<c, <<>>>>
               ELSE LET r == Run1(Set1Next(c, Head(bs)), Tail(bs))
                    IN  <<r[1], <<Set1Out(c, Head(bs))>> \o r[2]>>
PrefixSeq(p) == IF p = "P" THEN <<>> ELSE IF p = "E0" THEN <<E0>> ELSE <<E1>>

SequenceMeaning ==
  \A r \in KeyTable : r[2] # "-" =>
     LET mk == Run1("Start", PrefixSeq(r[2]) \o <<r[3]>>)
         bk == Run1("Start", PrefixSeq(r[2]) \o <<r[3] + 128>>)
         np == Len(PrefixSeq(r[2]))
     IN  /\ mk[1] = "Start" /\ bk[1] = "Start"
         /\ \A i \in 1..np : mk[2][i] = None /\ bk[2][i] = None
         /\ mk[2][np+1] = Ev(r[1], "Down")
         /\ bk[2][np+1] = Ev(r[1], "Up")

PrefixSilent == \A c \in Ctx1, b \in Bytes :
   (Set1Next(c, b) # "Start") => (Set1Out(c, b) = None /\ b \in PrefixBytes)
TableOf(c) == IF c = "Start" THEN Ref1Plain ELSE IF c = "E0" THEN Ref1E0 ELSE Ref1E1
UndefinedIsError == \A c \in Ctx1, b \in Bytes :
   LET o == Set1Out(c, b) IN
   /\ (o = None) <=> (Set1Next(c, b) # "Start")
   /\ (o # None /\ Code7(b) \notin DOMAIN TableOf(c)) => o = ErrUnknown
   /\ (o # None /\ Code7(b) \in DOMAIN TableOf(c)) => (o[1] = "ev" /\ o[2] = TableOf(c)[Code7(b)])

Seqs1 == { <<p, c>> : p \in Prefixes, c \in 0..127 }
MakeOf(pc) == Run1("Start", PrefixSeq(pc[1]) \o <<pc[2]>>)[2][Len(PrefixSeq(pc[1])) + 1]
BreakOf(pc) == Run1("Start", PrefixSeq(pc[1]) \o <<pc[2] + 128>>)[2][Len(PrefixSeq(pc[1])) + 1]
Injective == \A x, y \in Seqs1 :
   (MakeOf(x)[1] = "ev" /\ MakeOf(y)[1] = "ev" /\ MakeOf(x)[2] = MakeOf(y)[2]) => x = y
MakeIffBreak == \A x \in Seqs1 : ~(x[1] = "P" /\ x[2] \in {96, 97}) =>   \* plain E0/E1 are the prefixes
   /\ (MakeOf(x)[1] = "ev") => BreakOf(x) = Ev(MakeOf(x)[2], "Up")
   /\ (BreakOf(x)[1] = "ev") => MakeOf(x) = Ev(BreakOf(x)[2], "Down")

ASSUME C02_SequenceMeaning == SequenceMeaning
ASSUME C02_PrefixSilent == PrefixSilent
ASSUME C02_UndefinedIsError == UndefinedIsError
ASSUME C19_Injective == Injective
ASSUME C19_MakeIffBreak == MakeIffBreak
=============================================================================
