---------------------------- MODULE MC_Frame ----------------------------
(***************************************************************************)
(* Model-checking wrapper for the frame stage (C05, C06, C08).             *)
(*  - the C05 theorems are evaluated once over all 2048 frames (ASSUME);   *)
(*  - an implementation-shaped register machine (reg, n) - what            *)
(*    Ps2Decoder actually stores - runs in lock step with the abstract     *)
(*    bit sequence; TLC checks the refinement mapping, the shift-range     *)
(*    invariant (C08) and the C06 statements over all 2047 states.         *)
(***************************************************************************)
EXTENDS Ps2Frame, TLC

ASSUME C05_AcceptIff == AcceptIff
ASSUME C05_YieldsData == YieldsData
ASSUME C05_ErrorPriority == ErrorPriority
ASSUME C05_RoundTrip == RoundTrip
ASSUME C05_SingleFlipRejected == SingleFlipRejected
ASSUME C05_DoubleFlipFollowsRule == DoubleFlipFollowsRule

(* CheckWord tabulated once (TLC evaluates a constant definition a single time) *)
CheckTable == [w \in Frames |-> CheckWord(w)]

CONSTANT WordAlphabet   \* frames offered to AddWord in this run (all of Frames in the thorough tier)
ASSUME WordAlphabet \subseteq Frames

VARIABLES reg, n      \* the code's `register` and `num_bits`
mcvars == <<bits, fout, reg, n>>

RegAddBit(b) ==
  LET r == reg + b * 2^n      \* `register |= bit << num_bits` (bits above n are 0)
      m == n + 1
  IN  IF m = 11 THEN reg' = 0 /\ n' = 0 ELSE reg' = r /\ n' = m

MCInit == FrameInit /\ reg = 0 /\ n = 0
MCNext == \/ \E b \in {0, 1} : AddBit(b) /\ RegAddBit(b)
          \/ Clear /\ reg' = 0 /\ n' = 0
          \/ \E w \in WordAlphabet : fout' = CheckTable[w] /\ UNCHANGED <<bits, reg, n>>   \* AddWord(w)
MCSpec == MCInit /\ [][MCNext]_mcvars

(* refinement mapping between the stored pair and the abstract bit sequence *)
Refines == /\ n = Len(bits) /\ reg = WordOf(bits)
(* C08: the shift amount stays in range and the register never exceeds 11 bits *)
ShiftInRange == n \in 0..10 /\ reg < 2^n
TypeOK == FrameTypeOK

(* C06 on the spec *)
Incomplete == [][\A b \in {0,1} : (Len(bits) < 10 /\ AddBit(b)) => fout' = None]_mcvars
SerialEqualsWord ==
  [][\A b \in {0,1} : (Len(bits) = 10 /\ AddBit(b)) => fout' = CheckWord(WordOf(bits) + b * 1024)]_mcvars
(* after the 11th bit - whatever the verdict - and after Clear, the machine is in its initial state *)
FramesIndependent ==
  [][((\E b \in {0,1} : Len(bits) = 10 /\ AddBit(b)) \/ Clear) => (bits' = <<>> /\ reg' = 0 /\ n' = 0)]_mcvars
(* fout is an observation: it never influences a later step, so it is hidden from the   *)
(* state identity (2047 states instead of 2047 x 259).                                 *)
View == <<bits, reg, n>>
QuickWords == {0, 1, 1024, 1025, 1026, 1538, 2047, Encode(240), Encode(1), Flip(Encode(1), 9)}
AllWords == Frames
=============================================================================
