SPECIFICATION Spec
CONSTANT PKeys <- PKeysSmall
CONSTANT MaxSeqs = 4
CONSTANT MaxFaults = 2
CONSTANT AllowDrop = TRUE
CONSTANT PromptTimeout = TRUE
INVARIANT TypeOK InSyncNoFault NoErrorNoFault CtxHeals BoundedDamage
CHECK_DEADLOCK FALSE
