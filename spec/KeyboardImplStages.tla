---------------------------- MODULE KeyboardImplStages ----------------------------
(***************************************************************************)
(* The three REAL stages, used separately, packaged as the automata that   *)
(* Keyboard.tla expects - from the reachable graphs the harness extracted  *)
(* from a standalone Ps2Decoder (FGRAPH: alphabet add_bit(0), add_bit(1),  *)
(* clear()), a standalone ScancodeSet1/2 (SGRAPH: 256 bytes) and a         *)
(* standalone EventDecoder with the recording layout (EGRAPH: 124 keys x   *)
(* {Down, Up, SingleShot}, then set_ctrl_handling(Map), (Ignore), ...),    *)
(* and the add_word table (WORDS).  Stage states are graph indices.        *)
(***************************************************************************)
EXTENDS Integers, Sequences, FiniteSets, KeyCodes, Json, IOUtils

FG == ndJsonDeserialize(IOEnv.FGRAPH)
SG == ndJsonDeserialize(IOEnv.SGRAPH)
EG == ndJsonDeserialize(IOEnv.EGRAPH)
WT == ndJsonDeserialize(IOEnv.WORDS)

ImFInit == 1
ImFBitOut(x, b) == FG[x].out[b + 1]
ImFBitNext(x, b) == FG[x].post[b + 1]
ImFClear(x) == FG[x].post[3]
ImFWordOut(w) == WT[(w \div 256) + 1].r[(w % 256) + 1]

ImSInit == 1
ImSOut(x, y) == SG[x].out[y + 1]
ImSNext(x, y) == SG[x].post[y + 1]

StIdx(st) == IF st = "Down" THEN 0 ELSE IF st = "Up" THEN 1 ELSE 2
EvIdx(code, st) == KeyIndex(code) * 3 + StIdx(st) + 1
ModeIdx(h) == 372 + (IF h = "Map" THEN 1 ELSE 2)
ImEInit == 1
ImEKeyOut(x, code, st) == EG[x].out[EvIdx(code, st)]
ImEKeyNext(x, code, st) == EG[x].post[EvIdx(code, st)]
ImEModeNext(x, h) == EG[x].post[ModeIdx(h)]
ImEQuery(x, code, st) == EG[x].q[EvIdx(code, st)]
(* what the standalone event decoder exposes: its mode (getter) and - through what it shows the
   layout when a plain key is pressed - its modifiers *)
ImEMode(x) == EG[x].obs[2]
ImEMods(x) == LET q == EG[x].q[EvIdx("A", "Down")] IN IF q[1] = "q" THEN q[4] ELSE -1   \* -1: not shown

(* a stage state that was reached but not explored standalone (exploration cap): the wiring cannot
   be followed through it *)
StageExplored(f, s, e) == f # 0 /\ s # 0 /\ e # 0 /\ FG[f].expanded /\ SG[s].expanded /\ EG[e].expanded
(* every stage state the composite can be driven into must have been explored standalone *)
StagesComplete == /\ \A x \in 1..Len(FG) : FG[x].expanded
                  /\ \A x \in 1..Len(SG) : SG[x].expanded
                  /\ \A x \in 1..Len(EG) : EG[x].expanded
=============================================================================
