---------------------------- MODULE Link ----------------------------
(***************************************************************************)
(* Environment model of the PS/2 wire in front of the frame stage: a       *)
(* keyboard clocks 11-bit frames out bit by bit; the wire may flip a bit   *)
(* or lose a clock pulse (fault budget); the host shifts the bits into the *)
(* frame stage (Ps2Frame) and - as the `clear()` documentation asks -      *)
(* calls clear() when a frame in progress times out.                       *)
(*                                                                         *)
(* What the frame stage's design buys the user, end to end:                *)
(*   FaultFree      without faults exactly the bytes sent are delivered    *)
(*   NoWrongByte    with at most ONE fault per frame (odd parity cannot see  *)
(*                  two flips - TLC exhibits 0x1C -> 0x5C when the model   *)
(*                  allows two): whatever bit is flipped, and - PROVIDED the *)
(*                  host clears on the inter-frame timeout - whatever      *)
(*                  clock pulses are lost, a byte the host accepts is the  *)
(*                  byte the keyboard sent in that frame: corruption costs *)
(*                  frames, it never forges a scancode                     *)
(*   FramesIndependent  a fault in one frame never affects the verdict on  *)
(*                  the next                                               *)
(* With PromptTimeout = FALSE (a host that never calls clear()) TLC shows  *)
(* the hazard: after one lost pulse the stream stays misframed and a byte  *)
(* that was never sent can be accepted (config Link_hazard.cfg expects the *)
(* violation).                                                             *)
(***************************************************************************)
EXTENDS Integers, Sequences, FiniteSets, TLC

CONSTANTS SendBytes,       \* bytes the keyboard may send
          MaxFrames,       \* frames per behaviour
          MaxFaults,       \* fault budget
          AllowDrop,       \* may clock pulses be lost (TRUE) or only bits flipped (FALSE)
          PromptTimeout    \* does the host call clear() on the inter-frame timeout

F == INSTANCE Ps2Frame WITH bits <- <<>>, fout <- <<"none">>

RECURSIVE BitsOfWord(_, _)
BitsOfWord(w, n) == IF n = 0 THEN <<>> ELSE <<w % 2>> \o BitsOfWord(w \div 2, n - 1)

VARIABLES cur,        \* byte of the frame being sent, or -1 between frames
          tosend,     \* bits of the current frame still to be clocked out
          hbits,      \* the host's frame stage (bit sequence)
          frames,     \* frames started so far
          faults,     \* faults injected so far
          dirty,      \* was the current frame hit by a fault
          prevdirty,  \* was the previous frame hit by a fault
          last        \* last verdict of the host: <<frame's byte, frame dirty?, result>> (observation)
lvars == <<cur, tosend, hbits, frames, faults, dirty, prevdirty, last>>

LInit == cur = -1 /\ tosend = <<>> /\ hbits = <<>> /\ frames = 0 /\ faults = 0 /\ dirty = FALSE
         /\ prevdirty = FALSE /\ last = <<-1, FALSE, <<"none">>>>

StartFrame(b) == /\ cur = -1 /\ frames < MaxFrames
                 /\ (PromptTimeout => hbits = <<>>)          \* the timeout has fired before the next frame
                 /\ cur' = b /\ tosend' = BitsOfWord(F!Encode(b), 11) /\ frames' = frames + 1
                 /\ prevdirty' = dirty /\ dirty' = FALSE
                 /\ UNCHANGED <<hbits, faults, last>>
Deliver(bit) == /\ hbits' = F!AddBitNext(hbits, bit)
                /\ last' = IF Len(hbits) = 10 THEN <<cur, dirty', F!AddBitOut(hbits, bit)>> ELSE last
EndIfDone == cur' = IF Len(tosend) = 1 THEN -1 ELSE cur
SendBit == /\ tosend # <<>> /\ tosend' = Tail(tosend) /\ EndIfDone
           /\ dirty' = dirty /\ Deliver(Head(tosend))
           /\ UNCHANGED <<frames, faults, prevdirty>>
FlipBit == /\ tosend # <<>> /\ faults < MaxFaults /\ ~dirty /\ tosend' = Tail(tosend) /\ EndIfDone
           /\ faults' = faults + 1 /\ dirty' = TRUE /\ Deliver(1 - Head(tosend))
           /\ UNCHANGED <<frames, prevdirty>>
DropBit == /\ AllowDrop /\ tosend # <<>> /\ faults < MaxFaults /\ ~dirty /\ tosend' = Tail(tosend) /\ EndIfDone
           /\ faults' = faults + 1 /\ dirty' = TRUE
           /\ UNCHANGED <<hbits, frames, prevdirty, last>>
(* the host notices that a frame in progress has stalled and calls clear() *)
Timeout == /\ cur = -1 /\ hbits # <<>> /\ hbits' = <<>>
           /\ UNCHANGED <<cur, tosend, frames, faults, dirty, prevdirty, last>>

LNext == (\E b \in SendBytes : StartFrame(b)) \/ SendBit \/ FlipBit \/ DropBit \/ Timeout
LSpec == LInit /\ [][LNext]_lvars

TypeOK == Len(hbits) <= 10 /\ faults <= MaxFaults
(* a byte the host accepts is the byte of the frame that was being sent *)
NoWrongByte == last[3][1] = "byte" => last[3][2] = last[1]
(* an untouched frame following whatever came before is accepted with its byte (needs the timeout) *)
FramesIndependent == (PromptTimeout /\ last[1] >= 0 /\ ~last[2]) => last[3] = <<"byte", last[1]>>
FaultFree == (faults = 0 /\ last[1] >= 0) => last[3] = <<"byte", last[1]>>
=============================================================================
