---------------------------- MODULE KeyboardProofs ----------------------------
(***************************************************************************)
(* TLAPS proofs of the isolation statements of C18 for the wiring of       *)
(* Keyboard.tla with UNBOUNDED alphabets: every bit, every word, every     *)
(* byte, every key event, and arbitrary stage automata.  TLC checks the    *)
(* same statements exhaustively on the full frame x scancode product but   *)
(* with small byte / word / event alphabets (MC_Keyboard); these proofs    *)
(* close that gap: the statements follow from the shape of the wiring      *)
(* alone, given only that the scancode and event stages never return one   *)
(* of the three frame errors.                                              *)
(* Checked with: tlapm --threads 8 KeyboardProofs.tla                      *)
(***************************************************************************)
EXTENDS Keyboard, TLAPS

FrameErrs == { <<"err", "BadStartBit">>, <<"err", "BadStopBit">>, <<"err", "ParityError">> }

ASSUME ScanNeverFrameError == \A c, y : SOut(c, y) \notin FrameErrs
ASSUME EventNeverFrameError == \A e, code, st : EKeyOut(e, code, st) \notin FrameErrs

(* the next-state relation with unbounded alphabets *)
KbNextAll == \/ \E b \in {0, 1} : KbAddBit(b)
             \/ \E w \in Nat : KbAddWord(w)
             \/ \E y \in Nat : KbAddByte(y)
             \/ \E code \in STRING, st \in STRING : KbProcessKeyEvent(code, st)
             \/ KbClear
             \/ \E h \in STRING : KbSetCtrlHandling(h)

LEMMA NoneIsNotAFrameError == <<"none">> \notin FrameErrs
  BY DEF FrameErrs

(* a rejected frame is dropped: whatever call returns a frame error leaves the scancode and the
   event stage exactly as they were *)
THEOREM FrameErrorDropsByte == KbNextAll /\ kout' \in FrameErrs => ss' = ss /\ es' = es
<1> SUFFICES ASSUME KbNextAll, kout' \in FrameErrs PROVE ss' = ss /\ es' = es
  OBVIOUS
<1>1. CASE \E b \in {0, 1} : KbAddBit(b)
  <2> PICK b \in {0, 1} : KbAddBit(b)
    BY <1>1
  <2>1. es' = es
    BY DEF KbAddBit
  <2>2. CASE FBitOut(fs, b)[1] = "byte"
    <3>1. kout' = SOut(ss, FBitOut(fs, b)[2])
      BY <2>2 DEF KbAddBit, FeedByte
    <3> QED BY <3>1, ScanNeverFrameError
  <2>3. CASE FBitOut(fs, b)[1] # "byte"
    BY <2>3, <2>1 DEF KbAddBit
  <2> QED BY <2>2, <2>3
<1>2. CASE \E w \in Nat : KbAddWord(w)
  <2> PICK w \in Nat : KbAddWord(w)
    BY <1>2
  <2>1. es' = es
    BY DEF KbAddWord
  <2>2. CASE FWordOut(w)[1] = "byte"
    <3>1. kout' = SOut(ss, FWordOut(w)[2])
      BY <2>2 DEF KbAddWord, FeedByte
    <3> QED BY <3>1, ScanNeverFrameError
  <2>3. CASE FWordOut(w)[1] # "byte"
    BY <2>3, <2>1 DEF KbAddWord
  <2> QED BY <2>2, <2>3
<1>3. CASE \E y \in Nat : KbAddByte(y)
  <2> PICK y \in Nat : KbAddByte(y)
    BY <1>3
  <2>1. kout' = SOut(ss, y)
    BY DEF KbAddByte, FeedByte
  <2> QED BY <2>1, ScanNeverFrameError
<1>4. CASE \E code \in STRING, st \in STRING : KbProcessKeyEvent(code, st)
  <2> PICK code \in STRING, st \in STRING : KbProcessKeyEvent(code, st)
    BY <1>4
  <2>1. kout' = EKeyOut(es, code, st)
    BY DEF KbProcessKeyEvent
  <2> QED BY <2>1, EventNeverFrameError
<1>5. CASE KbClear
  BY <1>5 DEF KbClear
<1>6. CASE \E h \in STRING : KbSetCtrlHandling(h)
  <2> PICK h \in STRING : KbSetCtrlHandling(h)
    BY <1>6
  <2>1. kout' = <<"none">>
    BY DEF KbSetCtrlHandling
  <2> QED BY <2>1, NoneIsNotAFrameError
<1> QED BY <1>1, <1>2, <1>3, <1>4, <1>5, <1>6 DEF KbNextAll

(* clear() resets only the bit framing *)
THEOREM ClearOnlyFraming == KbClear => fs' = FClear(fs) /\ ss' = ss /\ es' = es
  BY DEF KbClear

(* no input path touches a stage it does not feed *)
THEOREM ByteSkipsFraming == \A y : KbAddByte(y) => fs' = fs /\ es' = es
  BY DEF KbAddByte
THEOREM AddWordLeavesRegister == \A w : KbAddWord(w) => fs' = fs /\ es' = es
  BY DEF KbAddWord
THEOREM BitsLeaveEventStage == \A b : KbAddBit(b) => es' = es
  BY DEF KbAddBit
THEOREM EventTouchesOnlyEvent ==
  /\ \A code, st : KbProcessKeyEvent(code, st) => fs' = fs /\ ss' = ss
  /\ \A h : KbSetCtrlHandling(h) => fs' = fs /\ ss' = ss
  BY DEF KbProcessKeyEvent, KbSetCtrlHandling

(* only accepted bytes reach the scancode stage *)
THEOREM OnlyAcceptedBytesReachScancode ==
  KbNextAll /\ ss' # ss =>
     \/ \E y \in Nat : KbAddByte(y)
     \/ \E b \in {0, 1} : KbAddBit(b) /\ FBitOut(fs, b)[1] = "byte"
     \/ \E w \in Nat : KbAddWord(w) /\ FWordOut(w)[1] = "byte"
<1> SUFFICES ASSUME KbNextAll, ss' # ss
             PROVE \/ \E y \in Nat : KbAddByte(y)
                   \/ \E b \in {0, 1} : KbAddBit(b) /\ FBitOut(fs, b)[1] = "byte"
                   \/ \E w \in Nat : KbAddWord(w) /\ FWordOut(w)[1] = "byte"
  OBVIOUS
<1>1. CASE \E b \in {0, 1} : KbAddBit(b)
  <2> PICK b \in {0, 1} : KbAddBit(b)
    BY <1>1
  <2>1. FBitOut(fs, b)[1] = "byte"
    BY DEF KbAddBit
  <2> QED BY <2>1
<1>2. CASE \E w \in Nat : KbAddWord(w)
  <2> PICK w \in Nat : KbAddWord(w)
    BY <1>2
  <2>1. FWordOut(w)[1] = "byte"
    BY DEF KbAddWord
  <2> QED BY <2>1
<1>3. CASE \E y \in Nat : KbAddByte(y)
  BY <1>3
<1>4. CASE \E code \in STRING, st \in STRING : KbProcessKeyEvent(code, st)
  BY <1>4 DEF KbProcessKeyEvent
<1>5. CASE KbClear
  BY <1>5 DEF KbClear
<1>6. CASE \E h \in STRING : KbSetCtrlHandling(h)
  BY <1>6 DEF KbSetCtrlHandling
<1> QED BY <1>1, <1>2, <1>3, <1>4, <1>5, <1>6 DEF KbNextAll
=============================================================================
