SPECIFICATION TSpec
INVARIANT ObsOK
POSTCONDITION Accepted
CHECK_DEADLOCK FALSE
