---------------------------- MODULE KeyCodes ----------------------------
(***************************************************************************)
(* The 124 symbolic keys of pc-keyboard (`KeyCode`), by name, in the order *)
(* of the enum (the order matters only for decoding the integer form of    *)
(* `RawKey` used on the wire: a raw key k is -(1 + KeyIndex(k))), and the  *)
(* key classes the properties speak about (DESIGN.md Appendix C).          *)
(***************************************************************************)
EXTENDS Integers, Sequences, FiniteSets

KeyNames == <<
  "Escape", "F1", "F2", "F3", "F4", "F5", "F6", "F7", "F8", "F9", "F10", "F11", "F12",
  "PrintScreen", "SysRq", "ScrollLock", "PauseBreak",
  "Oem8", "Key1", "Key2", "Key3", "Key4", "Key5", "Key6", "Key7", "Key8", "Key9", "Key0",
  "OemMinus", "OemPlus", "Backspace", "Insert", "Home", "PageUp",
  "NumpadLock", "NumpadDivide", "NumpadMultiply", "NumpadSubtract",
  "Tab", "Q", "W", "E", "R", "T", "Y", "U", "I", "O", "P", "Oem4", "Oem6", "Oem5", "Oem7",
  "Delete", "End", "PageDown", "Numpad7", "Numpad8", "Numpad9", "NumpadAdd",
  "CapsLock", "A", "S", "D", "F", "G", "H", "J", "K", "L", "Oem1", "Oem3", "Return",
  "Numpad4", "Numpad5", "Numpad6",
  "LShift", "Z", "X", "C", "V", "B", "N", "M", "OemComma", "OemPeriod", "Oem2", "RShift",
  "ArrowUp", "Numpad1", "Numpad2", "Numpad3", "NumpadEnter",
  "LControl", "LWin", "LAlt", "Spacebar", "RAltGr", "RWin", "Apps", "RControl",
  "ArrowLeft", "ArrowDown", "ArrowRight", "Numpad0", "NumpadPeriod",
  "Oem9", "Oem10", "Oem11", "Oem12", "Oem13",
  "PrevTrack", "NextTrack", "Mute", "Calculator", "Play", "Stop", "VolumeDown", "VolumeUp",
  "WWWHome", "PowerOnTestOk", "TooManyKeys", "RControl2", "RAlt2" >>

Keys == { KeyNames[i] : i \in 1..Len(KeyNames) }

KeyIndexTable == [k \in Keys |-> (CHOOSE i \in 1..Len(KeyNames) : KeyNames[i] = k) - 1]
KeyIndex(k) == KeyIndexTable[k]                  \* 0-based, as `k as u8` (tabulated once)
KeyAt(i) == KeyNames[i + 1]

(* wire form of DecodedKey: Unicode(c) = code point >= 0; RawKey(k) = -(1+index) *)
Raw(k) == 0 - (1 + KeyIndex(k))
IsRaw(d) == d < 0
RawKeyOf(d) == KeyAt((0 - d) - 1)

KeyStates == {"Down", "Up", "SingleShot"}

-----------------------------------------------------------------------------
(* Key classes *)

MomentaryModKeys == {"LShift", "RShift", "LControl", "RControl", "LAlt", "RAltGr", "RControl2"}
LockKeys == {"CapsLock", "NumpadLock"}
ModKeys == MomentaryModKeys \cup LockKeys

(* 52 keys that carry no character on any keyboard *)
Charless ==
  { "F1", "F2", "F3", "F4", "F5", "F6", "F7", "F8", "F9", "F10", "F11", "F12",
    "PrintScreen", "SysRq", "ScrollLock", "PauseBreak",
    "Insert", "Home", "PageUp", "End", "PageDown",
    "ArrowUp", "ArrowLeft", "ArrowDown", "ArrowRight",
    "NumpadLock", "CapsLock", "LShift", "RShift", "LControl", "RControl", "LAlt", "RAltGr",
    "LWin", "RWin", "Apps",
    "PrevTrack", "NextTrack", "Mute", "Calculator", "Play", "Stop", "VolumeDown", "VolumeUp",
    "WWWHome", "PowerOnTestOk", "TooManyKeys", "RControl2", "RAlt2",
    "Oem9", "Oem10", "Oem11" }

EditingKeys == {"Escape", "Backspace", "Tab", "Return", "Delete", "Spacebar"}
EditingChar == [ Escape |-> 27, Backspace |-> 8, Tab |-> 9, Return |-> 10, Delete |-> 127,
                 Spacebar |-> 32 ]

NumpadDigits == { "Numpad0", "Numpad1", "Numpad2", "Numpad3", "Numpad4", "Numpad5",
                  "Numpad6", "Numpad7", "Numpad8", "Numpad9" }
NumpadDigitChar == [ Numpad0 |-> 48, Numpad1 |-> 49, Numpad2 |-> 50, Numpad3 |-> 51,
                     Numpad4 |-> 52, Numpad5 |-> 53, Numpad6 |-> 54, Numpad7 |-> 55,
                     Numpad8 |-> 56, Numpad9 |-> 57 ]
NavAlias == [ Numpad0 |-> "Insert", Numpad1 |-> "End", Numpad2 |-> "ArrowDown",
              Numpad3 |-> "PageDown", Numpad4 |-> "ArrowLeft", Numpad6 |-> "ArrowRight",
              Numpad7 |-> "Home", Numpad8 |-> "ArrowUp", Numpad9 |-> "PageUp" ]
NumpadOps == {"NumpadDivide", "NumpadMultiply", "NumpadSubtract", "NumpadAdd"}
NumpadOpChar == [ NumpadDivide |-> 47, NumpadMultiply |-> 42, NumpadSubtract |-> 45,
                  NumpadAdd |-> 43 ]
NumpadKeys == NumpadDigits \cup NumpadOps \cup {"NumpadPeriod", "NumpadEnter"}
(* keys whose output may depend on NumLock *)
NumLockKeys == NumpadDigits \cup {"NumpadPeriod"}

(* main-block character keys *)
MainAnsi ==
  { "Oem8", "Key1", "Key2", "Key3", "Key4", "Key5", "Key6", "Key7", "Key8", "Key9", "Key0",
    "OemMinus", "OemPlus",
    "Q", "W", "E", "R", "T", "Y", "U", "I", "O", "P", "Oem4", "Oem6", "Oem7",
    "A", "S", "D", "F", "G", "H", "J", "K", "L", "Oem1", "Oem3",
    "Z", "X", "C", "V", "B", "N", "M", "OemComma", "OemPeriod", "Oem2" }
MainIso == MainAnsi \cup {"Oem5"}
MainJis == (MainAnsi \ {"Oem8"}) \cup {"Oem12", "Oem13"}
MainAll == MainAnsi \cup {"Oem5", "Oem12", "Oem13"}

LetterKeys == { "Q", "W", "E", "R", "T", "Y", "U", "I", "O", "P", "A", "S", "D", "F", "G", "H",
                "J", "K", "L", "Z", "X", "C", "V", "B", "N", "M" }

ASSUME KeyClassesPartition ==
  /\ Len(KeyNames) = 124
  /\ Cardinality(Keys) = 124
  /\ Cardinality(Charless) = 52
  /\ Cardinality(MainAnsi) = 47 /\ Cardinality(MainIso) = 48 /\ Cardinality(MainJis) = 48
  /\ Charless \cup EditingKeys \cup NumpadKeys \cup MainAll = Keys
  /\ Cardinality(Charless) + Cardinality(EditingKeys) + Cardinality(NumpadKeys)
        + Cardinality(MainAll) = 124
  /\ ModKeys \subseteq Charless
  /\ DOMAIN NavAlias = NumpadDigits \ {"Numpad5"}
  /\ \A k \in DOMAIN NavAlias : NavAlias[k] \in Charless
=============================================================================
