---------------------------- MODULE MC_WorldSim ----------------------------
(***************************************************************************)
(* Behaviour generator for the end-to-end replay: World.tla with a history *)
(* of what the hosts consumed and reported.  Run with                      *)
(*   tlc -simulate num=N -depth D                                          *)
(* each behaviour of length D prints one JSON line (the history), which    *)
(* `pkv replay-world` feeds to two real Keyboards (Set 2 raw, Set 1 after  *)
(* i8042 translation, same layout) and compares step by step.              *)
(***************************************************************************)
EXTENDS World, Json

SimKeys == {"A", "Q", "Z", "M", "Key2", "Key3", "Key4", "Oem7", "Oem5", "Oem8", "Oem1", "Oem3", "LShift", "RShift",
            "LControl", "RControl", "LAlt", "RAltGr", "NumpadLock", "CapsLock", "Pause", "PrintScreen", "Home",
            "Numpad7", "NumpadPeriod", "NumpadEnter", "Return", "Spacebar", "Delete", "Escape", "F7", "SysRq",
            "ArrowUp", "NumpadDivide", "Apps", "LWin", "Mute"}
Depth == 120

(* is the decoded key of this report pinned by the listed properties (C03 base/shift level, C15, C16)? *)
(* Elsewhere (AltGr levels the crate does not implement, Shift+AltGr, CapsLock, Ctrl) the model makes *)
(* one choice among the allowed ones and the replay does not compare the character.                 *)
Determined(o, m) ==
  LET k == o[1][2] IN
  o[1][1] = "ev" /\ ( k \notin LM!MainBlock(LayoutName)
                      \/ (~LM!Ag(m) /\ ~LM!Cl(m) /\ ~LM!Ct(m)) )
Det(outs, mPre) == [j \in 1..Len(outs) |-> Determined(outs[j], mPre)]

VARIABLE hist
svars == <<held, last, wire, c2, e2, c1, e1, out2, out1, numPresses, capsPresses, hist>>

SInit == WInit /\ hist = <<>>
SNext == \/ (\E k \in PhysKeys : Press(k) \/ Release(k)) /\ hist' = hist
         \/ Typematic /\ hist' = hist
         \/ HostStep /\ hist' = Append(hist, [s2 |-> Head(wire), s1 |-> Translate(Head(wire), FALSE),
                                              out2 |-> out2', out1 |-> out1', mods |-> e2'[1], mode |-> e2'[2],
                                              det |-> Det(out2', e2[1])])
SSpec == SInit /\ [][SNext]_svars

(* print each completed behaviour once; the invariants of World are checked along the way *)
EmitBehaviour == TLCGet("level") < Depth \/ PrintT(<<"@@B", ToJson(hist)>>)
=============================================================================
