---------------------------- MODULE Conf_Frame ----------------------------
(***************************************************************************)
(* (G) Conformance of the real Ps2Decoder with Ps2Frame over the alphabet  *)
(* {add_bit(0), add_bit(1), clear()} (alphabet indices 1, 2, 3).  Product  *)
(* exploration <<bits, impl state>>: covers every frame after every         *)
(* possible preceding stream, including after errors and after clear()     *)
(* from every partial state (C06), and every panic observation (C08).      *)
(***************************************************************************)
EXTENDS Ps2Frame, Report, IOUtils

G == ndJsonDeserialize(IOEnv.GRAPH)
(* the real add_word's verdict on every word (t_words table): C06 relates the two paths of the *)
(* implementation to each other; C05 separately pins add_word to CheckWord.                   *)
W == ndJsonDeserialize(IOEnv.WORDS)
ImplCheck(w) == W[(w \div 256) + 1].r[(w % 256) + 1]
Comp == IOEnv.COMP
IOut(x, a) == G[x].out[a]
INext(x, a) == G[x].post[a]

VARIABLE i
cvars == <<bits, fout, i>>

SpecOut(bs, a) == IF a = 3 THEN None ELSE AddBitOutWith(ImplCheck, bs, a - 1)
SpecNext(bs, a) == IF a = 3 THEN <<>> ELSE AddBitNext(bs, a - 1)
InputName(a) == IF a = 3 THEN <<"clear">> ELSE <<"bit", a - 1>>

CInit == FrameInit /\ i = 1
CNext == \E a \in 1..3 : /\ G[i].expanded /\ INext(i, a) # 0
                         /\ (IF a = 3 THEN Clear ELSE AddBit(a - 1))
                         /\ i' = INext(i, a)
CSpec == CInit /\ [][CNext]_cvars
View == <<bits, i>>

Conforms ==
  IF ~G[i].expanded
  THEN BadB([prop |-> "C06", kind |-> "unbounded", comp |-> Comp, access |-> G[i].access,
            note |-> "implementation state space exceeds the exploration cap"])
  ELSE ReportAllB({ a \in 1..3 : IOut(i, a) # SpecOut(bits, a) },
         LAMBDA a : [prop |-> IF IOut(i, a)[1] = "panic" THEN "C08" ELSE "C06",
                     also |-> <<"C06">>, kind |-> "io",
                     comp |-> Comp, ctx |-> bits, access |-> G[i].access, input |-> InputName(a),
                     observed |-> IOut(i, a), expected |-> SpecOut(bits, a)])

(* frames are independent: whenever the spec is at a frame boundary the implementation is in
   its initial state (state 1) - the correspondence is discovered by the product *)
BoundaryIsInitial ==
  (bits = <<>>) => (G[i].cls = G[1].cls \/ BadB([prop |-> "C06", kind |-> "boundary", comp |-> Comp,
                                  access |-> G[i].access, id |-> G[i].id,
                                  note |-> "at a frame boundary the decoder is not in its initial state"]))

AllProps == LET r == << Conforms, BoundaryIsInitial >> IN \A j \in 1..Len(r) : r[j]
Stats == Note("@@S", [impl_states |-> Len(G), alphabet |-> 3])
=============================================================================
