---------------------------- MODULE ScanProps ----------------------------
(***************************************************************************)
(* Properties of a scancode decoder stated over an arbitrary deterministic *)
(* byte automaton given by Out(state, byte), Next(state, byte) and an      *)
(* initial state - so that the very same formulas are evaluated on the     *)
(* specification's automaton and on the automaton extracted from the real  *)
(* object.  No reference table is involved (C07, C19), except the i8042    *)
(* translation for C13.                                                    *)
(***************************************************************************)
EXTENDS Integers, Sequences, FiniteSets, Xlate8042

LOCAL NoneR == <<"none">>
LOCAL IsEv(o) == o[1] = "ev"

(* silent paths: byte sequences (from the initial state) all of whose outputs are "none",
   up to length maxlen; each element is <<sequence, state reached>> *)
RECURSIVE SilentPaths(_, _, _, _)
SilentPaths(Out(_, _), Next(_, _), frontier, n) ==
  IF n = 0 THEN frontier
  ELSE LET ext == UNION { { <<Append(p[1], b), Next(p[2], b)>> :
                                 b \in { bb \in 0..255 : Out(p[2], bb) = NoneR } } : p \in frontier }
       IN  frontier \cup SilentPaths(Out, Next, ext, n - 1)

(* C07 on a graph: states reachable by exactly k consecutive silent steps from any state in S *)
SilentSucc(Out(_, _), Next(_, _), S) ==
  UNION { { Next(x, b) : b \in { bb \in 0..255 : Out(x, bb) = NoneR } } : x \in S }

(* Whenever a non-"none" result is produced the automaton is back in the initial state *)
ResyncHolds(Out(_, _), Next(_, _), States, init) ==
  \A x \in States, b \in 0..255 : Out(x, b) # NoneR => Next(x, b) = init

(* "none" is never returned more than maxrun times in a row, from any reachable state *)
NoneRunHolds(Out(_, _), Next(_, _), States, maxrun) ==
  LET N1 == SilentSucc(Out, Next, States)
      N2 == SilentSucc(Out, Next, N1)
      N3 == SilentSucc(Out, Next, N2)
  IN  IF maxrun = 2 THEN N3 = {} ELSE N2 = {}

(* complete sequences: silent path + one byte with a non-"none" result; <<seq, result>> *)
Complete(Out(_, _), Next(_, _), init, maxlen) ==
  LET sp == SilentPaths(Out, Next, {<<<<>>, init>>}, maxlen)
  IN  UNION { { <<Append(p[1], b), Out(p[2], b)>> :
                     b \in { bb \in 0..255 : Out(p[2], bb) # NoneR } } : p \in sp }

(* C19 (i): distinct complete key sequences denote distinct <<key, state>> events *)
SeqInjective(C) ==
  LET evs == { c \in C : IsEv(c[2]) }
  IN  \A e \in { c[2] : c \in evs } : Cardinality({ c \in evs : c[2] = e }) = 1
SeqInjectiveWitness(C) ==
  LET evs == { c \in C : IsEv(c[2]) }
  IN  { e \in { c[2] : c \in evs } : Cardinality({ c \in evs : c[2] = e }) > 1 }

ResultOf(C, s) == IF \E c \in C : c[1] = s THEN (CHOOSE c \in C : c[1] = s)[2] ELSE <<"incomplete">>

(* C19 (ii) Set 2: make form = complete sequence whose last-but-one byte is not F0;
   break form inserts F0 before the final byte *)
Break2(s) == SubSeq(s, 1, Len(s) - 1) \o <<240, s[Len(s)]>>
IsBreak2(s) == Len(s) >= 2 /\ s[Len(s) - 1] = 240
Unbreak2(s) == SubSeq(s, 1, Len(s) - 2) \o <<s[Len(s)]>>
MakeBreak2Bad(C) ==
  { c \in C :
      \/ (IsEv(c[2]) /\ c[2][3] = "Down" /\ ~IsBreak2(c[1])
            /\ ResultOf(C, Break2(c[1])) # <<"ev", c[2][2], "Up">>)
      \/ (IsEv(c[2]) /\ c[2][3] = "Up"
            /\ ~(IsBreak2(c[1]) /\ LET m == ResultOf(C, Unbreak2(c[1]))
                                   IN  m[1] = "ev" /\ m[2] = c[2][2] /\ m[3] \in {"Down", "SingleShot"})) }

(* C19 (ii) Set 1: break form sets bit 7 of the final byte *)
Break1(s) == SubSeq(s, 1, Len(s) - 1) \o <<s[Len(s)] + 128>>
Unbreak1(s) == SubSeq(s, 1, Len(s) - 1) \o <<s[Len(s)] - 128>>
MakeBreak1Bad(C) ==
  { c \in C :
      \/ (IsEv(c[2]) /\ c[2][3] = "Down"
            /\ ~(c[1][Len(c[1])] < 128 /\ ResultOf(C, Break1(c[1])) = <<"ev", c[2][2], "Up">>))
      \/ (IsEv(c[2]) /\ c[2][3] = "Up"
            /\ ~(c[1][Len(c[1])] >= 128 /\ ResultOf(C, Unbreak1(c[1])) = <<"ev", c[2][2], "Down">>)) }

-----------------------------------------------------------------------------
(* C13: run a byte sequence through an automaton, return the last output *)
RECURSIVE LastOut(_, _, _, _)
LastOut(Out(_, _), Next(_, _), x, bs) ==
  IF Len(bs) = 1 THEN Out(x, bs[1]) ELSE LastOut(Out, Next, Next(x, bs[1]), Tail(bs))

PfxSeq(p) == IF p = "P" THEN <<>> ELSE IF p = "E0" THEN <<224>> ELSE <<225>>

(* forward: whatever key Set 2 decodes (prefix p, code c, make or break), Set 1 decodes the
   translated sequence to the identical event.  Returns the set of violating <<p, c, form>> *)
XlateForwardBad(O2(_, _), N2(_, _), i2, O1(_, _), N1(_, _), i1) ==
  { x \in { <<p, c, f>> : p \in {"P", "E0", "E1"}, c \in XlateDomain, f \in {"make", "break"} } :
      LET p == x[1]  c == x[2]
          o2 == IF x[3] = "make" THEN LastOut(O2, N2, i2, PfxSeq(p) \o <<c>>)
                                 ELSE LastOut(O2, N2, i2, PfxSeq(p) \o <<240, c>>)
          o1 == IF x[3] = "make" THEN LastOut(O1, N1, i1, PfxSeq(p) \o <<Xlate(c)>>)
                                 ELSE LastOut(O1, N1, i1, PfxSeq(p) \o <<Xlate(c) + 128>>)
      IN  o2[1] = "ev" /\ o1 # o2 }

(* converse: every key event Set 1 decodes has a Set 2 preimage decoding to the same event,
   and no preimage decodes to a different key *)
XlateConverseBad(O2(_, _), N2(_, _), i2, O1(_, _), N1(_, _), i1) ==
  { x \in { <<p, c1, f>> : p \in {"P", "E0", "E1"}, c1 \in 1..127, f \in {"make", "break"} } :
      LET p == x[1]  c1 == x[2]
          o1 == IF x[3] = "make" THEN LastOut(O1, N1, i1, PfxSeq(p) \o <<c1>>)
                                 ELSE LastOut(O1, N1, i1, PfxSeq(p) \o <<c1 + 128>>)
          pre(c) == IF x[3] = "make" THEN LastOut(O2, N2, i2, PfxSeq(p) \o <<c>>)
                                     ELSE LastOut(O2, N2, i2, PfxSeq(p) \o <<240, c>>)
      IN  o1[1] = "ev" /\ ~( /\ \E c \in XlatePre(c1) : pre(c) = o1
                             /\ \A c \in XlatePre(c1) : pre(c)[1] = "ev" => pre(c) = o1 ) }
=============================================================================
