SPECIFICATION Spec
INVARIANT C03 C09 C10 C11 C12 C15 C16
CHECK_DEADLOCK FALSE
