---------------------------- MODULE Layouts ----------------------------
(***************************************************************************)
(* The layout stage as a contract on a function table                      *)
(*      Out : Layout x Key x 0..511 x {"Map","Ignore"} -> Decoded          *)
(* (Decoded: code point >= 0, or Raw(k) < 0).  The predicates below are    *)
(* the listed properties C03, C09-C12, C15, C16, each stated for one       *)
(* (layout, key, mode) row - or one (layout, mode) for C12 - over an       *)
(* arbitrary Out, so that the same formulas judge the specification's      *)
(* model (LayoutModel) and the table extracted from the real layouts.      *)
(*                                                                         *)
(* Each predicate is given as the SET OF VIOLATING CASES (empty = holds),  *)
(* so that every failing cell is reported, not only the first.             *)
(*                                                                         *)
(* Modifier sets are integers 0..511: bit0 lshift, 1 rshift, 2 lctrl,      *)
(* 3 rctrl, 4 numlock, 5 capslock, 6 lalt, 7 ralt, 8 rctrl2 (hidden).      *)
(***************************************************************************)
EXTENDS Integers, Sequences, FiniteSets, KeyCodes, LayoutRef

Mods == 0..511
Modes == {"Map", "Ignore"}
P2 == <<1, 2, 4, 8, 16, 32, 64, 128, 256>>
B(m, i) == (m \div P2[i + 1]) % 2 = 1
Sh(m) == B(m, 0) \/ B(m, 1)
Ct(m) == B(m, 2) \/ B(m, 3)
Nl(m) == B(m, 4)
Cl(m) == B(m, 5)
La(m) == B(m, 6)
Ra(m) == B(m, 7)
Hc(m) == B(m, 8)
Ag(m) == Ra(m) \/ (La(m) /\ Ct(m))                \* AltGr: right Alt, or left Alt + Ctrl
NL == 16                                           \* NumLock only: the power-on state

(* the five public predicates of `Modifiers` *)
IsShifted(m) == Sh(m)
IsCtrl(m) == Ct(m)
IsAlt(m) == La(m) \/ Ra(m)
IsAltGr(m) == Ag(m)
IsCaps(m) == Sh(m) # Cl(m)

(* canonical member of m's abstract class <<Shift, Ctrl, AltGr, CapsLock, NumLock (numpad keys only -  *)
(* all 17 of them: C11 allows any numpad key to look at NumLock; C15 separately pins the operators and  *)
(* Enter)>>:                                                                                          *)
(* left Shift, left Ctrl, right Alt, CapsLock, NumLock; hidden flag and lone left Alt dropped  *)
Rep(k, m) == (IF Sh(m) THEN 1 ELSE 0) + (IF Ct(m) THEN 4 ELSE 0) + (IF Ag(m) THEN 128 ELSE 0)
           + (IF Cl(m) THEN 32 ELSE 0) + (IF (k \in NumpadKeys) => Nl(m) THEN 16 ELSE 0)
NoCtrl(m) == m - (IF B(m, 2) THEN 4 ELSE 0) - (IF B(m, 3) THEN 8 ELSE 0)
NoCaps(m) == m - (IF Cl(m) THEN 32 ELSE 0)
NoShift(m) == m - (IF B(m, 0) THEN 1 ELSE 0) - (IF B(m, 1) THEN 2 ELSE 0)

(* Latin-1 upper case *)
Upper(c) == IF c \in 97..122 \/ (c \in 224..254 /\ c # 247) THEN c - 32 ELSE c

-----------------------------------------------------------------------------
(* Everything below is parameterised by Out.                                *)

Base(Out(_, _, _, _), l, k) == Out(l, k, NL, "Ignore")
Shifted(Out(_, _, _, _), l, k) == Out(l, k, NL + 1, "Ignore")
IsLetter(Out(_, _, _, _), l, k) == Base(Out, l, k) \in 97..122
CtrlMapped(Out(_, _, _, _), l, k, m, h) == h = "Map" /\ Ct(m) /\ IsLetter(Out, l, k)
CasePair(Out(_, _, _, _), l, k) ==
  LET b == Base(Out, l, k) IN b >= 0 /\ Upper(b) # b /\ Shifted(Out, l, k) = Upper(b)

(* ---- C11: modifiers are seen only through the five facts ---- *)
C11Bad(Out(_, _, _, _), l, k, h) == { m \in Mods : Out(l, k, m, h) # Out(l, k, Rep(k, m), h) }

(* ---- C09: Ctrl+letter ---- *)
C09BadA(Out(_, _, _, _), l, k) ==       \* wrong control character
  IF IsLetter(Out, l, k)
  THEN { m \in Mods : Ct(m) /\ ~La(m) /\ ~Ra(m) /\ Out(l, k, m, "Map") # Base(Out, l, k) - 96 }
  ELSE {}
C09BadB(Out(_, _, _, _), l, k) ==       \* mapping mode changes something it should not
  { m \in Mods : ~(IsLetter(Out, l, k) /\ Ct(m)) /\ Out(l, k, m, "Map") # Out(l, k, m, "Ignore") }
C09BadC(Out(_, _, _, _), l, k) ==       \* with mapping disabled the Ctrl keys change nothing
  { m \in Mods : ~La(m) /\ Out(l, k, m, "Ignore") # Out(l, k, NoCtrl(m), "Ignore") }

(* ---- C10: CapsLock ---- *)
(* case pairs: CapsLock is an inversion of Shift - for every modifier set with CapsLock on,  *)
(* the output equals that of each twin with CapsLock off and the opposite Shift condition   *)
(* (all left/right representatives); other keys: CapsLock changes nothing.                  *)
ShiftTwins(m) ==   \* m has CapsLock on; twins: CapsLock off, Shift condition inverted, rest equal
  LET r == NoShift(NoCaps(m)) IN IF Sh(m) THEN {r} ELSE {r + 1, r + 2, r + 3}
C10Bad(Out(_, _, _, _), l, k, h) ==
  IF CasePair(Out, l, k)
  THEN { m \in Mods : Cl(m) /\ \E t \in ShiftTwins(m) : Out(l, k, m, h) # Out(l, k, t, h) }
  ELSE { m \in Mods : Cl(m) /\ Out(l, k, m, h) # Out(l, k, NoCaps(m), h) }

(* ---- C03: the characters of the national standard ---- *)
C03Bad(Out(_, _, _, _), l, k, h) ==
  IF k \notin MainBlock(l) THEN {}
  ELSE { m \in Mods :
           /\ ~Cl(m) /\ ~CtrlMapped(Out, l, k, m, h)
           /\ LET o == Out(l, k, m, h) IN
              CASE ~Sh(m) /\ ~Ag(m) -> o \notin RefBase(l, k)
                [] Sh(m) /\ ~Ag(m)  -> o \notin RefShift(l, k)
                [] ~Sh(m) /\ Ag(m)  -> o \notin (RefBase(l, k) \cup RefAltGr(l, k))
                [] OTHER -> FALSE }

(* ---- C12: every printable ASCII character can be typed ---- *)
PlainLevels == {NL, NL + 1, NL + 128}
C12Missing(Out(_, _, _, _), l, h) ==
  { c \in 32..126 : ~\E k \in Keys : \E m \in PlainLevels : Out(l, k, m, h) = c }

(* ---- C15: numpad and editing keys ---- *)
C15Bad(Out(_, _, _, _), l, k, h) ==
  CASE k \in NumpadDigits ->
         { m \in Mods : \/ (Nl(m) /\ Out(l, k, m, h) # NumpadDigitChar[k])
                        \/ (~Nl(m) /\ k # "Numpad5" /\ Out(l, k, m, h) # Raw(NavAlias[k])) }
    [] k \in NumpadOps -> { m \in Mods : Out(l, k, m, h) # NumpadOpChar[k] }
    [] k = "NumpadEnter" -> { m \in Mods : Out(l, k, m, h) # Out(l, "Return", m, h) }
    [] k = "NumpadPeriod" ->
         { m \in Mods : \/ (Nl(m) /\ Out(l, k, m, h) \notin DecimalSep(l))
                        \/ (~Nl(m) /\ Out(l, k, m, h) # 127) }
    [] k \in EditingKeys -> { m \in Mods : Out(l, k, m, h) # EditingChar[k] }
    [] OTHER -> {}

(* ---- C16: keys without a character are raw everywhere; raw outputs name the pressed key ---- *)
C16Bad(Out(_, _, _, _), l, k, h) ==
  { m \in Mods :
      LET o == Out(l, k, m, h) IN
      \/ (k \in Charless /\ o # Raw(k))
      \/ (IsRaw(o) /\ o # Raw(k)
            /\ ~(k \in DOMAIN NavAlias /\ ~Nl(m) /\ o = Raw(NavAlias[k]))) }
=============================================================================
