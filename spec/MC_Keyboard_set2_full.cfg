SPECIFICATION MCSpec
CONSTANT SetNo = 2
CONSTANT LayoutFn <- MCLayoutFn
CONSTANT LayoutIds <- MCLayoutIds
CONSTANT ByteAlpha <- QBytes
CONSTANT WordAlpha <- QWords
CONSTANT EventAlpha <- QEvents
INVARIANT TypeOK
PROPERTY FrameErrorDropsByte ClearOnlyFraming ByteSkipsFraming AddWordLeavesRegister BitsLeaveEventStage EventTouchesOnlyEvent OnlyAcceptedBytesReachScancode WordEqualsByte
VIEW View
CHECK_DEADLOCK FALSE
