SPECIFICATION Spec
CONSTANT PKeys <- PKeysMore
CONSTANT MaxSeqs = 6
CONSTANT MaxFaults = 3
CONSTANT AllowDrop = TRUE
CONSTANT PromptTimeout = TRUE
INVARIANT TypeOK InSyncNoFault NoErrorNoFault CtxHeals BoundedDamage
CHECK_DEADLOCK FALSE
