SPECIFICATION CSpec
INVARIANT Conforms
CHECK_DEADLOCK FALSE
VIEW View
