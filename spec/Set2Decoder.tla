---------------------------- MODULE Set2Decoder ----------------------------
(***************************************************************************)
(* Scancode Set 2 decoder (`ScancodeSet2::advance_state`), written from    *)
(* the state diagram in its doc comment and the reference table:           *)
(*   Start:  F0 -> Release, E0 -> Extended, E1 -> Extended2, xx -> key down *)
(*   Release: xx -> key up                                                  *)
(*   Extended: F0 -> Release-Extended, xx -> extended key down              *)
(*   Release-Extended: xx -> extended key up       (same for Extended2)     *)
(* The unprefixed status bytes 00 / AA are one-shot events.  After every   *)
(* event AND after every error the context is Start again (C07).           *)
(***************************************************************************)
EXTENDS Integers, Sequences, FiniteSets, Scancodes

E0 == 224   E1 == 225   F0 == 240
Bytes == 0..255

None == <<"none">>
Ev(k, s) == <<"ev", k, s>>
ErrUnknown == <<"err", "UnknownKeyCode">>

Ctx2 == {"Start", "E0", "E1", "F0", "E0F0", "E1F0"}

Lookup(tbl, b, st) == IF b \in DOMAIN tbl THEN Ev(tbl[b], st) ELSE ErrUnknown

Set2Out(c, b) ==
  CASE c = "Start" ->
         IF b \in {E0, E1, F0} THEN None
         ELSE IF b \in DOMAIN Ref2Plain /\ Ref2Plain[b] \in StatusKeys
              THEN Ev(Ref2Plain[b], "SingleShot")
              ELSE Lookup(Ref2Plain, b, "Down")
    [] c = "F0"   -> Lookup(Ref2Plain, b, "Up")
    [] c = "E0"   -> IF b = F0 THEN None ELSE Lookup(Ref2E0, b, "Down")
    [] c = "E0F0" -> Lookup(Ref2E0, b, "Up")
    [] c = "E1"   -> IF b = F0 THEN None ELSE Lookup(Ref2E1, b, "Down")
    [] c = "E1F0" -> Lookup(Ref2E1, b, "Up")

Set2Next(c, b) ==
  CASE c = "Start" -> IF b = E0 THEN "E0" ELSE IF b = E1 THEN "E1" ELSE IF b = F0 THEN "F0"
                      ELSE "Start"
    [] c = "E0" -> IF b = F0 THEN "E0F0" ELSE "Start"
    [] c = "E1" -> IF b = F0 THEN "E1F0" ELSE "Start"
    [] OTHER -> "Start"

VARIABLES ctx, sout
svars == <<ctx, sout>>

Set2Init == ctx = "Start" /\ sout = None
Byte2(b) == sout' = Set2Out(ctx, b) /\ ctx' = Set2Next(ctx, b)
Set2NextAct == \E b \in Bytes : Byte2(b)
Set2Spec == Set2Init /\ [][Set2NextAct]_svars

Set2TypeOK == ctx \in Ctx2

(* C07 for the spec *)
Resync2 == [][sout' # None => ctx' = "Start"]_svars
=============================================================================
