---------------------------- MODULE MC_Event ----------------------------
(***************************************************************************)
(* Model-checking wrapper for the event stage: C04 and C14 on the spec.    *)
(* History variables restate the modifier state the way the property does  *)
(* ("held iff the most recent event was a press"; lock = parity of         *)
(* presses, Pause presses not counted), and TLC checks that the decoder's  *)
(* modifier word equals it in every reachable state (all 512 x 2 x |L|),   *)
(* with the full event alphabet 124 x 3 and the setters interleaved.       *)
(***************************************************************************)
EXTENDS EventDecoder, TLC

(* an uninterpreted layout: the token names every argument it was given *)
KIdx == [k \in Keys |-> KeyIndex(k)]
MCLayoutFn(l, k, m, h) == 1000000 + ((l * 124 + KIdx[k]) * 512 + m) * 2 + (IF h = "Map" THEN 0 ELSE 1)
MCLayoutIds == {0, 1}

VARIABLES act,          \* the call just made (observation only; hidden by VIEW)
          lastPress,    \* [momentary key -> BOOLEAN]: was its most recent event a press?
          capsParity, numParity
mcvars == <<mods, mode, layout, eout, query, act, lastPress, capsParity, numParity>>

MCInit == /\ EventInit("Map", 0) /\ act = <<"init">>
          /\ lastPress = [k \in MomentaryModKeys |-> FALSE]
          /\ capsParity = 0 /\ numParity = 1                 \* NumLock starts on

HistKey(code, st) ==
  /\ lastPress' = IF code \in MomentaryModKeys /\ st \in {"Down", "Up"}
                  THEN [lastPress EXCEPT ![code] = (st = "Down")] ELSE lastPress
  /\ capsParity' = IF code = "CapsLock" /\ st = "Down" THEN 1 - capsParity ELSE capsParity
  /\ numParity' = IF code = "NumpadLock" /\ st = "Down" /\ ~lastPress["RControl2"]
                  THEN 1 - numParity ELSE numParity
MCNext == \/ \E code \in Keys, st \in KeyStates :
                KeyEvent(code, st) /\ HistKey(code, st) /\ act' = <<"key", code, st>>
          \/ \E h \in Modes : SetCtrlHandling(h) /\ act' = <<"mode", h>>
                               /\ UNCHANGED <<lastPress, capsParity, numParity>>
          \/ \E l \in MCLayoutIds : ChangeLayout(l) /\ act' = <<"layout", l>>
                                     /\ UNCHANGED <<lastPress, capsParity, numParity>>
IsKey == act'[1] = "key"
Code == act'[2]
St == act'[3]
MCSpec == MCInit /\ [][MCNext]_mcvars
View == <<mods, mode, layout, lastPress, capsParity, numParity>>

ModsFromHistory ==
  LET bit(k) == IF lastPress[k] THEN P2e[FlagOf[k] + 1] ELSE 0 IN
  bit("LShift") + bit("RShift") + bit("LControl") + bit("RControl") + bit("LAlt") + bit("RAltGr")
  + bit("RControl2") + 16 * numParity + 32 * capsParity

TypeOK == EventTypeOK
C04_ModsAreHistory == mods = ModsFromHistory
(* frame condition: nothing but the nine modifier/lock presses and the seven releases changes it *)
C04_Frame == [][(IsKey /\ (Code \notin ModKeys \/ St = "SingleShot" \/ (Code \in LockKeys /\ St = "Up")))
                  => UNCHANGED mods]_mcvars
C04_SettersLeaveMods == [][~IsKey => UNCHANGED mods]_mcvars

(* C14 *)
C14_OnePerPress == [][(IsKey /\ St = "Down") => eout'[1] = "key"]_mcvars
C14_SilentOtherwise == [][(IsKey /\ St # "Down") => (eout' = NoneE /\ query' = NoQuery)]_mcvars
C14_ModifierPressIsRawSelf ==
  [][(IsKey /\ St = "Down" /\ Code \in ModKeys) =>
        /\ query' = NoQuery
        /\ eout' = KeyOut(IF Code = "NumpadLock" /\ Has(mods, HIDDENCTRL) THEN Raw("PauseBreak")
                          ELSE Raw(Code))]_mcvars
(* the layout is consulted with the PRE-state modifiers of this very step and the CURRENT mode and
   layout - whatever setter ran immediately before *)
C14_LiveArguments ==
  [][(IsKey /\ St = "Down" /\ Code \notin ModKeys) =>
        /\ query' = Query(layout, Code, mods, mode)
        /\ eout' = KeyOut(MCLayoutFn(layout, Code, mods, mode))]_mcvars
(* negative control (selftest): a decoder in which releasing left Alt clears the AltGr flag must
   violate C04_ModsAreHistory (MC_Event_neg.cfg overrides EvMods with this) *)
BrokenEvMods(m, code, st) ==
  IF code = "LAlt" /\ st = "Up" THEN ClrBit(m, 7)
  ELSE IF code \in MomentaryModKeys /\ st = "Down" THEN SetBit(m, FlagOf[code])
  ELSE IF code \in MomentaryModKeys /\ st = "Up" THEN ClrBit(m, FlagOf[code])
  ELSE IF code = "CapsLock" /\ st = "Down" THEN Toggle(m, CAPSLOCK)
  ELSE IF code = "NumpadLock" /\ st = "Down" /\ ~Has(m, HIDDENCTRL) THEN Toggle(m, NUMLOCK)
  ELSE m
(* every one of the 512 x 2 x 2 decoder states is reachable - the quantifier is not vacuous *)
=============================================================================
