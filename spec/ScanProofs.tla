---------------------------- MODULE ScanProofs ----------------------------
(***************************************************************************)
(* TLAPS proofs of C07 for the decoder SPECIFICATIONS, for every byte      *)
(* value and whatever the reference tables contain: whenever a decoder     *)
(* reports something other than "no event yet" it is back in context       *)
(* "Start", and "no event yet" is returned at most twice (Set 2) / once    *)
(* (Set 1) in a row.  TLC checks the same over the 256 byte values with    *)
(* the concrete tables (MC_Set1 / MC_Set2); these proofs show it does not  *)
(* depend on the tables.  Checked with: tlapm ScanProofs.tla               *)
(***************************************************************************)
EXTENDS Integers, TLAPS

S2 == INSTANCE Set2Decoder WITH ctx <- "Start", sout <- <<"none">>
S1 == INSTANCE Set1Decoder WITH ctx <- "Start", sout <- <<"none">>

(* ---- Set 2 ---- *)
LEMMA Ev2NotNone == \A k, s : S2!Ev(k, s) # S2!None
  BY DEF S2!Ev, S2!None
LEMMA Err2NotNone == S2!ErrUnknown # S2!None
  BY DEF S2!ErrUnknown, S2!None
LEMMA Lookup2NotNone == \A tbl, b, st : S2!Lookup(tbl, b, st) # S2!None
  BY Ev2NotNone, Err2NotNone DEF S2!Lookup

(* a step that stays out of "Start" is silent *)
THEOREM Set2Resync ==
  \A c \in S2!Ctx2, b \in 0..255 : S2!Set2Out(c, b) # S2!None => S2!Set2Next(c, b) = "Start"
<1> SUFFICES ASSUME NEW c \in S2!Ctx2, NEW b \in 0..255, S2!Set2Next(c, b) # "Start"
             PROVE S2!Set2Out(c, b) = S2!None
  OBVIOUS
<1>1. CASE c = "Start"
  BY <1>1 DEF S2!Set2Next, S2!Set2Out, S2!E0, S2!E1, S2!F0
<1>2. CASE c = "E0"
  BY <1>2 DEF S2!Set2Next, S2!Set2Out, S2!F0
<1>3. CASE c = "E1"
  BY <1>3 DEF S2!Set2Next, S2!Set2Out, S2!F0
<1>4. CASE c \in {"F0", "E0F0", "E1F0"}
  BY <1>4 DEF S2!Set2Next
<1> QED BY <1>1, <1>2, <1>3, <1>4 DEF S2!Ctx2

(* depth of a context = number of silent steps that led to it; it is at most 2 and a silent step
   increases it by one, so three silent steps in a row are impossible *)
Depth2(c) == IF c = "Start" THEN 0 ELSE IF c \in {"E0", "E1", "F0"} THEN 1 ELSE 2
THEOREM Set2SilentDepth ==
  \A c \in S2!Ctx2, b \in 0..255 :
     S2!Set2Next(c, b) # "Start" => Depth2(S2!Set2Next(c, b)) = Depth2(c) + 1 /\ Depth2(c) <= 1
<1> SUFFICES ASSUME NEW c \in S2!Ctx2, NEW b \in 0..255, S2!Set2Next(c, b) # "Start"
             PROVE Depth2(S2!Set2Next(c, b)) = Depth2(c) + 1 /\ Depth2(c) <= 1
  OBVIOUS
<1>1. CASE c = "Start"
  BY <1>1 DEF S2!Set2Next, Depth2
<1>2. CASE c = "E0"
  BY <1>2 DEF S2!Set2Next, Depth2
<1>3. CASE c = "E1"
  BY <1>3 DEF S2!Set2Next, Depth2
<1>4. CASE c \in {"F0", "E0F0", "E1F0"}
  BY <1>4 DEF S2!Set2Next
<1> QED BY <1>1, <1>2, <1>3, <1>4 DEF S2!Ctx2

(* ---- Set 1 ---- *)
LEMMA Lookup1NotNone == \A tbl, b, st : S1!Lookup(tbl, b, st) # S1!None
  BY DEF S1!Lookup, S1!Ev, S1!ErrUnknown, S1!None
THEOREM Set1Resync ==
  \A c \in S1!Ctx1, b \in 0..255 : S1!Set1Out(c, b) # S1!None => S1!Set1Next(c, b) = "Start"
<1> SUFFICES ASSUME NEW c \in S1!Ctx1, NEW b \in 0..255, S1!Set1Next(c, b) # "Start"
             PROVE S1!Set1Out(c, b) = S1!None
  OBVIOUS
<1>1. c = "Start" /\ b \in {224, 225}
  BY DEF S1!Set1Next, S1!E0, S1!E1
<1> QED BY <1>1 DEF S1!Set1Out, S1!E0, S1!E1
(* a silent step is only possible from "Start": at most one in a row *)
THEOREM Set1SilentOnlyFromStart ==
  \A c \in S1!Ctx1, b \in 0..255 : S1!Set1Next(c, b) # "Start" => c = "Start"
  BY DEF S1!Set1Next
=============================================================================
