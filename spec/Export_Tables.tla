---------------------------- MODULE Export_Tables ----------------------------
(***************************************************************************)
(* (R) spec -> impl.  TLC evaluates the specification's complete           *)
(* transition tables and writes them as generic finite automata            *)
(*     [ name, init, alphabet, next[state][a], out[state][a] ]             *)
(* (states are 1-based integers, inputs in the harness's wire form).       *)
(* `pkv replay-table` walks such a table next to the real object over      *)
(* input spaces far larger than TLC could ingest (all four-byte streams,   *)
(* all ordered frame pairs, all event pairs from every state), comparing   *)
(* every result for equality with TLC's value; the walker knows nothing    *)
(* about keyboards.  Evaluating the tables is also the totality check of   *)
(* C08 on the spec side: an undefined case would make TLC fail here.       *)
(***************************************************************************)
EXTENDS Integers, Sequences, FiniteSets, KeyCodes, Json, TLC, IOUtils

F == INSTANCE Ps2Frame WITH bits <- <<>>, fout <- <<"none">>
S1 == INSTANCE Set1Decoder WITH ctx <- "Start", sout <- <<"none">>
S2 == INSTANCE Set2Decoder WITH ctx <- "Start", sout <- <<"none">>
RecLayoutFn(l, k, m, h) == 983040 + l * 128 + KeyIndex(k)
E == INSTANCE EventDecoder WITH LayoutFn <- RecLayoutFn, LayoutIds <- {0, 1},
       mods <- 16, mode <- "Map", layout <- 0, eout <- <<"none">>, query <- <<"noq">>

OutDir == IOEnv.OUTDIR

(* ---- scancode sets ---- *)
Ctx2Seq == <<"Start", "E0", "E1", "F0", "E0F0", "E1F0">>
Ctx1Seq == <<"Start", "E0", "E1">>
IdxIn(seq, c) == CHOOSE j \in 1..Len(seq) : seq[j] = c
ByteAlpha == [b \in 1..256 |-> <<"byte", b - 1>>]
Set2Auto == [ name |-> "set2", init |-> 1, alphabet |-> ByteAlpha, states |-> Ctx2Seq,
              next |-> [s \in 1..6 |-> [b \in 1..256 |-> IdxIn(Ctx2Seq, S2!Set2Next(Ctx2Seq[s], b - 1))]],
              out  |-> [s \in 1..6 |-> [b \in 1..256 |-> S2!Set2Out(Ctx2Seq[s], b - 1)]] ]
Set1Auto == [ name |-> "set1", init |-> 1, alphabet |-> ByteAlpha, states |-> Ctx1Seq,
              next |-> [s \in 1..3 |-> [b \in 1..256 |-> IdxIn(Ctx1Seq, S1!Set1Next(Ctx1Seq[s], b - 1))]],
              out  |-> [s \in 1..3 |-> [b \in 1..256 |-> S1!Set1Out(Ctx1Seq[s], b - 1)]] ]

(* ---- frame stage: state index of a bit sequence of length n with value v = 2^n + v ---- *)
P2 == [n \in 0..11 |-> 2^n]
FIdx(bs) == P2[Len(bs)] + F!WordOf(bs)
RECURSIVE BitsOf(_, _)
BitsOf(v, n) == IF n = 0 THEN <<>> ELSE <<v % 2>> \o BitsOf(v \div 2, n - 1)
FState(j) == LET n == CHOOSE nn \in 0..10 : P2[nn] <= j /\ j < P2[nn + 1] IN BitsOf(j - P2[n], n)
FrameAlpha == << <<"bit", 0>>, <<"bit", 1>>, <<"clear">> >>
FNextOf(bs, a) == IF a = 3 THEN <<>> ELSE F!AddBitNext(bs, a - 1)
FOutOf(bs, a) == IF a = 3 THEN <<"none">> ELSE F!AddBitOut(bs, a - 1)
FrameAuto == [ name |-> "frame", init |-> 1, alphabet |-> FrameAlpha, states |-> [j \in 1..2047 |-> FState(j)],
               next |-> [j \in 1..2047 |-> [a \in 1..3 |-> FIdx(FNextOf(FState(j), a))]],
               out  |-> [j \in 1..2047 |-> [a \in 1..3 |-> FOutOf(FState(j), a)]] ]
WordTable == [ name |-> "words", check |-> [w \in 1..2048 |-> F!CheckWord(w - 1)] ]

(* ---- event stage: state <<mods, mode, layout>> -> mods + 512*modeIdx + 1024*layout + 1 ---- *)
StSeq == <<"Down", "Up", "SingleShot">>
EvAlpha == [a \in 1..376 |->
              IF a <= 372 THEN <<"key", KeyAt((a - 1) \div 3), StSeq[((a - 1) % 3) + 1]>>
              ELSE IF a = 373 THEN <<"mode", "Map">> ELSE IF a = 374 THEN <<"mode", "Ignore">>
              ELSE IF a = 375 THEN <<"layout", 0>> ELSE <<"layout", 1>>]
EState(j) == LET x == j - 1 IN <<x % 512, IF (x \div 512) % 2 = 0 THEN "Map" ELSE "Ignore", x \div 1024>>
EIdx(e) == e[1] + 512 * (IF e[2] = "Map" THEN 0 ELSE 1) + 1024 * e[3] + 1
ENextOf(e, x) == CASE x[1] = "key" -> <<E!EvMods(e[1], x[2], x[3]), e[2], e[3]>>
                   [] x[1] = "mode" -> <<e[1], x[2], e[3]>>
                   [] x[1] = "layout" -> <<e[1], e[2], x[2]>>
EOutOf(e, x) == IF x[1] = "key" THEN <<E!EvOut(e[1], e[2], e[3], x[2], x[3]), E!EvQuery(e[1], e[2], e[3], x[2], x[3])>>
                ELSE << <<"none">>, <<"noq">> >>
EventAuto == [ name |-> "event", init |-> EIdx(<<16, "Map", 0>>), alphabet |-> EvAlpha,
               states |-> [j \in 1..2048 |-> EState(j)],
               next |-> [j \in 1..2048 |-> [a \in 1..376 |-> EIdx(ENextOf(EState(j), EvAlpha[a]))]],
               out  |-> [j \in 1..2048 |-> [a \in 1..376 |-> EOutOf(EState(j), EvAlpha[a])]] ]

ASSUME Exported ==
  /\ JsonSerialize(OutDir \o "/set2.json", Set2Auto)
  /\ JsonSerialize(OutDir \o "/set1.json", Set1Auto)
  /\ JsonSerialize(OutDir \o "/frame.json", FrameAuto)
  /\ JsonSerialize(OutDir \o "/words.json", WordTable)
  /\ JsonSerialize(OutDir \o "/event.json", EventAuto)
  /\ PrintT(<<"@@S", ToJson([exported |-> 5, set2_cells |-> 6 * 256, set1_cells |-> 3 * 256,
                             frame_cells |-> 2047 * 3, words |-> 2048, event_cells |-> 2048 * 376])>>)
=============================================================================
