---------------------------- MODULE LinkScan ----------------------------
(***************************************************************************)
(* Environment model, one stage further than Link: a Set 2 keyboard with a *)
(* set of physically held keys clocks make / break sequences out frame by  *)
(* frame and bit by bit; the wire may flip a bit or lose a clock pulse (at *)
(* most one fault per frame, MaxFaults in total); the host is what         *)
(* `Keyboard::add_bit` is: the frame stage (Ps2Frame) feeding the Set 2    *)
(* scancode stage (Set2Decoder), `clear()` on the inter-frame timeout, and *)
(* the set of keys the host believes to be down (what an application keeps *)
(* from the Down / Up events).                                             *)
(*                                                                         *)
(* What the two stages' design buys the user, end to end:                  *)
(*   InSyncNoFault   without faults the host's held set is the keyboard's  *)
(*                   at every sequence boundary and the context is Start   *)
(*   CtxHeals        one untouched sequence after any damage and the       *)
(*                   scancode context is Start again (C07 seen from the    *)
(*                   wire: a lost frame never poisons more than the next   *)
(*                   sequence)                                             *)
(*   BoundedDamage   every fault costs at most THREE keys of disagreement  *)
(*                   between host and keyboard.  The first version said    *)
(*                   two (the sequence that was hit and, through a         *)
(*                   dangling context, the next); TLC refuted it in 64     *)
(*                   steps: the key byte of A's break `F0 [1C]` is lost    *)
(*                   (A stays down at the host, context F0), then ArrowUp  *)
(*                   `E0 75` is pressed: E0 in context F0 is an unknown    *)
(*                   key (error, context Start), and the bare 75 is keypad *)
(*                   8 down - host {A, Numpad8}, keyboard {ArrowUp}.       *)
(*   NoErrorNoFault  without faults the host never sees an error           *)
(* and what it does NOT buy (config LinkScan_hazard.cfg expects TLC to     *)
(* find it): NoPhantomKey - a key the keyboard never touched is never      *)
(* reported.  One lost E0 frame turns the arrow key E0 75 into keypad 8:   *)
(* frame parity protects bytes, nothing protects the sequence structure    *)
(* (real hosts ask for a resend; pc-keyboard has no such channel).         *)
(***************************************************************************)
EXTENDS Integers, Sequences, FiniteSets, TLC

CONSTANTS PKeys,          \* physical keys <<ext, code>> : ext \in {0,1}, code a Set 2 byte
          MaxSeqs,        \* key actions per behaviour
          MaxFaults,      \* fault budget
          AllowDrop,      \* may clock pulses be lost
          PromptTimeout   \* does the host call clear() on the inter-frame timeout

PKeysSmall == {<<0, 28>>, <<1, 117>>}        \* A and ArrowUp (E0 75; 75 alone is keypad 8)
PKeysMore  == {<<0, 28>>, <<1, 117>>, <<0, 18>>}   \* + LShift

F == INSTANCE Ps2Frame WITH bits <- <<>>, fout <- <<"none">>
S == INSTANCE Set2Decoder WITH ctx <- "Start", sout <- <<"none">>

RECURSIVE BitsOfWord(_, _)
BitsOfWord(w, n) == IF n = 0 THEN <<>> ELSE <<w % 2>> \o BitsOfWord(w \div 2, n - 1)

Pre(k)   == IF k[1] = 1 THEN <<224>> ELSE <<>>
Make(k)  == Pre(k) \o <<k[2]>>
Break(k) == Pre(k) \o <<240, k[2]>>
KeyOf(k) == IF k[1] = 1 THEN S!Ref2E0[k[2]] ELSE S!Ref2Plain[k[2]]
Image(ks) == {KeyOf(k) : k \in ks}

VARIABLES kdown,     \* keys physically held at the keyboard
          pending,   \* bytes of the current sequence not yet framed
          tosend,    \* bits of the current frame still to be clocked out
          hbits,     \* host: frame stage
          ctx,       \* host: Set 2 scancode context
          hdown,     \* host: keys believed down
          seqs, faults,
          dirty,     \* was the current frame hit
          cleanrun,  \* sequences completed without a fault since the last fault (capped at 2)
          seqdirty,  \* was the current sequence hit
          herr       \* has the host seen any error (frame or scancode)
vars == <<kdown, pending, tosend, hbits, ctx, hdown, seqs, faults, dirty, cleanrun, seqdirty, herr>>

Init == /\ kdown = {} /\ pending = <<>> /\ tosend = <<>> /\ hbits = <<>> /\ ctx = "Start" /\ hdown = {}
        /\ seqs = 0 /\ faults = 0 /\ dirty = FALSE /\ cleanrun = 2 /\ seqdirty = FALSE /\ herr = FALSE

Quiet == pending = <<>> /\ tosend = <<>>

(* a key goes down or up: the keyboard queues the sequence *)
KeyAction(k) == /\ Quiet /\ seqs < MaxSeqs
                /\ (PromptTimeout => hbits = <<>>)
                /\ IF k \in kdown THEN kdown' = kdown \ {k} /\ pending' = Break(k)
                                  ELSE kdown' = kdown \cup {k} /\ pending' = Make(k)
                /\ seqs' = seqs + 1 /\ seqdirty' = FALSE
                /\ UNCHANGED <<tosend, hbits, ctx, hdown, faults, dirty, cleanrun, herr>>
(* the next byte of the sequence is framed *)
StartFrame == /\ tosend = <<>> /\ pending # <<>>
              /\ (PromptTimeout => hbits = <<>>)
              /\ tosend' = BitsOfWord(F!Encode(Head(pending)), 11) /\ pending' = Tail(pending)
              /\ dirty' = FALSE
              /\ UNCHANGED <<kdown, hbits, ctx, hdown, seqs, faults, cleanrun, seqdirty, herr>>
(* the host: Keyboard::add_bit *)
HostBit(bit) ==
  LET fo == F!AddBitOut(hbits, bit) IN
  /\ hbits' = F!AddBitNext(hbits, bit)
  /\ IF fo[1] = "byte"
     THEN LET so == S!Set2Out(ctx, fo[2]) IN
          /\ ctx' = S!Set2Next(ctx, fo[2])
          /\ hdown' = IF so[1] = "ev" /\ so[3] = "Down" THEN hdown \cup {so[2]}
                      ELSE IF so[1] = "ev" /\ so[3] = "Up" THEN hdown \ {so[2]} ELSE hdown
          /\ herr' = (herr \/ so[1] = "err")
     ELSE /\ UNCHANGED <<ctx, hdown>> /\ herr' = (herr \/ fo[1] = "err")
(* bookkeeping when the last bit of the last frame of a sequence leaves the keyboard *)
Done(hit) == IF Len(tosend) = 1 /\ pending = <<>>
             THEN cleanrun' = IF seqdirty \/ hit THEN 0 ELSE IF cleanrun < 2 THEN cleanrun + 1 ELSE 2
             ELSE cleanrun' = cleanrun
SendBit == /\ tosend # <<>> /\ tosend' = Tail(tosend) /\ HostBit(Head(tosend)) /\ Done(FALSE)
           /\ UNCHANGED <<kdown, pending, seqs, faults, dirty, seqdirty>>
FlipBit == /\ tosend # <<>> /\ faults < MaxFaults /\ ~dirty /\ tosend' = Tail(tosend)
           /\ HostBit(1 - Head(tosend)) /\ Done(TRUE)
           /\ faults' = faults + 1 /\ dirty' = TRUE /\ seqdirty' = TRUE
           /\ UNCHANGED <<kdown, pending, seqs>>
DropBit == /\ AllowDrop /\ tosend # <<>> /\ faults < MaxFaults /\ ~dirty /\ tosend' = Tail(tosend)
           /\ Done(TRUE)
           /\ faults' = faults + 1 /\ dirty' = TRUE /\ seqdirty' = TRUE
           /\ UNCHANGED <<kdown, pending, hbits, ctx, hdown, seqs, herr>>
Timeout == /\ tosend = <<>> /\ hbits # <<>> /\ hbits' = <<>>
           /\ UNCHANGED <<kdown, pending, tosend, ctx, hdown, seqs, faults, dirty, cleanrun, seqdirty, herr>>

Next == (\E k \in PKeys : KeyAction(k)) \/ StartFrame \/ SendBit \/ FlipBit \/ DropBit \/ Timeout
Spec == Init /\ [][Next]_vars

TypeOK == Len(hbits) <= 10 /\ faults <= MaxFaults /\ ctx \in S!Ctx2 /\ cleanrun \in 0..2

Settled == Quiet /\ hbits = <<>>
Disagree == Cardinality({k \in hdown \cup Image(kdown) : (k \in hdown) # (k \in Image(kdown))})

InSyncNoFault  == (faults = 0 /\ Settled) => (hdown = Image(kdown) /\ ctx = "Start")
NoErrorNoFault == faults = 0 => ~herr
CtxHeals       == (PromptTimeout /\ Settled /\ cleanrun >= 1) => ctx = "Start"
BoundedDamage  == (PromptTimeout /\ Settled) => Disagree <= 3 * faults
(* hazard: expected to be violated *)
NoPhantomKey   == hdown \subseteq Image(PKeys)
=============================================================================
