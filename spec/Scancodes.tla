---------------------------- MODULE Scancodes ----------------------------
(***************************************************************************)
(* Reference data for the scancode stage: the conversion table a user of   *)
(* pc-keyboard relies on (README "Conversion Table" = the IBM/Microsoft    *)
(* "Keyboard Scan Code Specification" tables for Set 1 and Set 2).         *)
(*                                                                         *)
(* One row per symbolic key: <<key, set-1 prefix, set-1 make code,         *)
(* set-2 prefix, set-2 make code>>; prefix "P" = none (plain), "E0", "E1", *)
(* "-" = the key has no code in that set.  Transcribed from the README     *)
(* table and reviewed row by row against the Microsoft tables; the two     *)
(* README misprints are corrected and marked.  Where README and Microsoft  *)
(* differ without contradiction (SysRq: README Set 2 0x7F, real keyboards  *)
(* also send 0x84) the README value is the reference and the other code is *)
(* simply not a row of this table.                                         *)
(*                                                                         *)
(* The table is cross-checked against the i8042 translation table written  *)
(* independently in Xlate8042.tla (ASSUME TableAgreesWithXlate there).      *)
(***************************************************************************)
EXTENDS Integers, Sequences, FiniteSets, KeyCodes

KeyTable == {
  <<"Escape", "P", \h01, "P", \h76>>,
  <<"F1", "P", \h3B, "P", \h05>>,
  <<"F2", "P", \h3C, "P", \h06>>,
  <<"F3", "P", \h3D, "P", \h04>>,
  <<"F4", "P", \h3E, "P", \h0C>>,
  <<"F5", "P", \h3F, "P", \h03>>,
  <<"F6", "P", \h40, "P", \h0B>>,
  <<"F7", "P", \h41, "P", \h83>>,
  <<"F8", "P", \h42, "P", \h0A>>,
  <<"F9", "P", \h43, "P", \h01>>,
  <<"F10", "P", \h44, "P", \h09>>,
  <<"F11", "P", \h57, "P", \h78>>,
  <<"F12", "P", \h58, "P", \h07>>,
  <<"PrintScreen", "E0", \h37, "E0", \h7C>>,
  <<"SysRq", "P", \h54, "P", \h7F>>,
  <<"ScrollLock", "P", \h46, "P", \h7E>>,
  <<"PauseBreak", "-", -1, "-", -1>>,
  <<"Oem8", "P", \h29, "P", \h0E>>,
  <<"Key1", "P", \h02, "P", \h16>>,
  <<"Key2", "P", \h03, "P", \h1E>>,
  <<"Key3", "P", \h04, "P", \h26>>,
  <<"Key4", "P", \h05, "P", \h25>>,
  <<"Key5", "P", \h06, "P", \h2E>>,
  <<"Key6", "P", \h07, "P", \h36>>,
  <<"Key7", "P", \h08, "P", \h3D>>,
  <<"Key8", "P", \h09, "P", \h3E>>,
  <<"Key9", "P", \h0A, "P", \h46>>,
  <<"Key0", "P", \h0B, "P", \h45>>,
  <<"OemMinus", "P", \h0C, "P", \h4E>>,
  <<"OemPlus", "P", \h0D, "P", \h55>>,
  <<"Backspace", "P", \h0E, "P", \h66>>,
  <<"Insert", "E0", \h52, "E0", \h70>>,
  <<"Home", "E0", \h47, "E0", \h6C>>,
  <<"PageUp", "E0", \h49, "E0", \h7D>>,
  <<"NumpadLock", "P", \h45, "P", \h77>>,
  <<"NumpadDivide", "E0", \h35, "E0", \h4A>>,
  <<"NumpadMultiply", "P", \h37, "P", \h7C>>,
  <<"NumpadSubtract", "P", \h4A, "P", \h7B>>,
  <<"Tab", "P", \h0F, "P", \h0D>>,
  <<"Q", "P", \h10, "P", \h15>>,
  <<"W", "P", \h11, "P", \h1D>>,
  <<"E", "P", \h12, "P", \h24>>,
  <<"R", "P", \h13, "P", \h2D>>,
  <<"T", "P", \h14, "P", \h2C>>,
  <<"Y", "P", \h15, "P", \h35>>,
  <<"U", "P", \h16, "P", \h3C>>,
  <<"I", "P", \h17, "P", \h43>>,
  <<"O", "P", \h18, "P", \h44>>,
  <<"P", "P", \h19, "P", \h4D>>,
  <<"Oem4", "P", \h1A, "P", \h54>>,
  <<"Oem6", "P", \h1B, "P", \h5B>>,
  <<"Oem5", "P", \h56, "P", \h61>>,
  <<"Oem7", "P", \h2B, "P", \h5D>>,
  <<"Delete", "E0", \h53, "E0", \h71>>,
  <<"End", "E0", \h4F, "E0", \h69>>,
  <<"PageDown", "E0", \h51, "E0", \h7A>>,
  <<"Numpad7", "P", \h47, "P", \h6C>>,
  <<"Numpad8", "P", \h48, "P", \h75>>,
  <<"Numpad9", "P", \h49, "P", \h7D>>,
  <<"NumpadAdd", "P", \h4E, "P", \h79>>,
  <<"CapsLock", "P", \h3A, "P", \h58>>,
  <<"A", "P", \h1E, "P", \h1C>>,
  <<"S", "P", \h1F, "P", \h1B>>,
  <<"D", "P", \h20, "P", \h23>>,
  <<"F", "P", \h21, "P", \h2B>>,
  <<"G", "P", \h22, "P", \h34>>,
  <<"H", "P", \h23, "P", \h33>>,
  <<"J", "P", \h24, "P", \h3B>>,
  <<"K", "P", \h25, "P", \h42>>,
  <<"L", "P", \h26, "P", \h4B>>,
  <<"Oem1", "P", \h27, "P", \h4C>>,
  <<"Oem3", "P", \h28, "P", \h52>>,
  <<"Return", "P", \h1C, "P", \h5A>>,
  <<"Numpad4", "P", \h4B, "P", \h6B>>,
  <<"Numpad5", "P", \h4C, "P", \h73>>,
  <<"Numpad6", "P", \h4D, "P", \h74>>,
  <<"LShift", "P", \h2A, "P", \h12>>,
  <<"Z", "P", \h2C, "P", \h1A>>,
  <<"X", "P", \h2D, "P", \h22>>,
  <<"C", "P", \h2E, "P", \h21>>,
  <<"V", "P", \h2F, "P", \h2A>>,
  <<"B", "P", \h30, "P", \h32>>,
  <<"N", "P", \h31, "P", \h31>>,
  <<"M", "P", \h32, "P", \h3A>>,
  <<"OemComma", "P", \h33, "P", \h41>>,
  <<"OemPeriod", "P", \h34, "P", \h49>>,
  <<"Oem2", "P", \h35, "P", \h4A>>,
  <<"RShift", "P", \h36, "P", \h59>>,
  <<"ArrowUp", "E0", \h48, "E0", \h75>>,
  <<"Numpad1", "P", \h4F, "P", \h69>>,
  <<"Numpad2", "P", \h50, "P", \h72>>,
  <<"Numpad3", "P", \h51, "P", \h7A>>,
  <<"NumpadEnter", "E0", \h1C, "E0", \h5A>>,   \* README prints 0xE075 (misprint: collides with ArrowUp); MS spec: E0 5A
  <<"LControl", "P", \h1D, "P", \h14>>,
  <<"LWin", "E0", \h5B, "E0", \h1F>>,
  <<"LAlt", "P", \h38, "P", \h11>>,
  <<"Spacebar", "P", \h39, "P", \h29>>,
  <<"RAltGr", "E0", \h38, "E0", \h11>>,
  <<"RWin", "E0", \h5C, "E0", \h27>>,
  <<"Apps", "E0", \h5D, "E0", \h2F>>,   \* README prints 0xE05C (misprint: collides with RWin); MS spec: E0 5D
  <<"RControl", "E0", \h1D, "E0", \h14>>,
  <<"ArrowLeft", "E0", \h4B, "E0", \h6B>>,
  <<"ArrowDown", "E0", \h50, "E0", \h72>>,
  <<"ArrowRight", "E0", \h4D, "E0", \h74>>,
  <<"Numpad0", "P", \h52, "P", \h70>>,
  <<"NumpadPeriod", "P", \h53, "P", \h71>>,
  <<"Oem9", "P", \h7B, "P", \h67>>,
  <<"Oem10", "P", \h79, "P", \h64>>,
  <<"Oem11", "P", \h70, "P", \h13>>,
  <<"Oem12", "P", \h73, "P", \h51>>,
  <<"Oem13", "P", \h7D, "P", \h6A>>,
  <<"PrevTrack", "E0", \h10, "E0", \h15>>,
  <<"NextTrack", "E0", \h19, "E0", \h4D>>,
  <<"Mute", "E0", \h20, "E0", \h23>>,
  <<"Calculator", "E0", \h21, "E0", \h2B>>,
  <<"Play", "E0", \h22, "E0", \h34>>,
  <<"Stop", "E0", \h24, "E0", \h3B>>,
  <<"VolumeDown", "E0", \h2E, "E0", \h21>>,
  <<"VolumeUp", "E0", \h30, "E0", \h32>>,
  <<"WWWHome", "E0", \h32, "E0", \h3A>>,
  <<"TooManyKeys", "-", -1, "P", \h00>>,
  <<"PowerOnTestOk", "-", -1, "P", \hAA>>,
  <<"RControl2", "E1", \h1D, "E1", \h14>>,
  <<"RAlt2", "E0", \h2A, "E0", \h12>>
}

Prefixes == {"P", "E0", "E1"}
StatusKeys == {"TooManyKeys", "PowerOnTestOk"}

(* code -> key, per set and prefix; a function whose domain is the set of defined codes *)
Ref1(p) == LET rs == { r \in KeyTable : r[2] = p }
           IN  [ c \in { r[3] : r \in rs } |-> (CHOOSE r \in rs : r[3] = c)[1] ]
Ref2(p) == LET rs == { r \in KeyTable : r[4] = p }
           IN  [ c \in { r[5] : r \in rs } |-> (CHOOSE r \in rs : r[5] = c)[1] ]

Ref1Plain == Ref1("P")   Ref1E0 == Ref1("E0")   Ref1E1 == Ref1("E1")
Ref2Plain == Ref2("P")   Ref2E0 == Ref2("E0")   Ref2E1 == Ref2("E1")

(* Well-formedness of the reference itself *)
ASSUME TableWellFormed ==
  /\ Cardinality(KeyTable) = 124
  /\ { r[1] : r \in KeyTable } = Keys
  /\ \A r \in KeyTable : /\ r[2] \in Prefixes \cup {"-"} /\ r[4] \in Prefixes \cup {"-"}
                         /\ (r[2] = "-") <=> (r[3] = -1)
                         /\ (r[4] = "-") <=> (r[5] = -1)
                         /\ r[3] \in -1..127      \* set-1 make codes have bit 7 clear
                         /\ r[5] \in -1..255
  (* one row per (set, prefix, code): the README misprints would violate this *)
  /\ \A r, s \in KeyTable : (r[2] = s[2] /\ r[3] = s[3] /\ r[2] # "-") => r = s
  /\ \A r, s \in KeyTable : (r[4] = s[4] /\ r[5] = s[5] /\ r[4] # "-") => r = s
  (* sizes quoted by the properties *)
  /\ Cardinality(DOMAIN Ref2Plain) = 94 /\ Cardinality(DOMAIN Ref2E0) = 28
  /\ Cardinality(DOMAIN Ref2E1) = 1
  /\ Cardinality(DOMAIN Ref1Plain) = 92 /\ Cardinality(DOMAIN Ref1E0) = 28
  /\ Cardinality(DOMAIN Ref1E1) = 1
  (* prefixes never double as codes *)
  /\ \A p \in Prefixes : {224, 225, 240} \cap DOMAIN Ref2(p) = {}
=============================================================================
