---------------------------- MODULE MC_LinkScanSim ----------------------------
(***************************************************************************)
(* Behaviour generator for the bit-level end-to-end replay: LinkScan with  *)
(* a history variable.  TLC runs in simulation mode (-simulate, seeded);   *)
(* each behaviour of length Depth prints one JSON line: every bit the wire *)
(* delivered to the host (faults applied) and every timeout-clear(), with  *)
(* what `Keyboard::add_bit` must return for it according to the frame and  *)
(* Set 2 stage specifications, and the host's held-key set afterwards.     *)
(* `pkv replay-link` feeds the same bits to a real Keyboard AND to a real  *)
(* Ps2Decoder + ScancodeSet2 used separately.                              *)
(***************************************************************************)
EXTENDS LinkScan, Json

Depth == 420
SimKeys == {<<0, 28>>, <<1, 117>>, <<0, 18>>, <<1, 20>>, <<0, 90>>, <<1, 90>>, <<0, 119>>, <<1, 74>>}

VARIABLES hist,
          fpos    \* simulation only: the bit position (bits still to send) at which this frame may be hit;
                  \* drawn per frame from 0..32, so that about a third of the frames are hit, at any position
svars == <<vars, hist, fpos>>

Expected(bit) == LET fo == F!AddBitOut(hbits, bit) IN
                 IF fo[1] = "byte" THEN S!Set2Out(ctx, fo[2]) ELSE fo
Rec(bit) == [op |-> "bit", b |-> bit, f |-> F!AddBitOut(hbits, bit), out |-> Expected(bit), down |-> hdown', ctx |-> ctx']

SInit == Init /\ hist = <<>> /\ fpos = 0
SNext == \/ (\E k \in PKeys : KeyAction(k)) /\ hist' = hist /\ fpos' = fpos
         \/ StartFrame /\ hist' = hist /\ fpos' \in 0..32
         \/ SendBit /\ hist' = Append(hist, Rec(Head(tosend))) /\ fpos' = fpos
         \/ Len(tosend) = fpos /\ FlipBit /\ hist' = Append(hist, Rec(1 - Head(tosend))) /\ fpos' = fpos
         \/ Len(tosend) = fpos /\ DropBit /\ hist' = hist /\ fpos' = fpos
         \/ Timeout /\ fpos' = fpos
            /\ hist' = Append(hist, [op |-> "clear", b |-> 0, f |-> <<"none">>, out |-> <<"none">>, down |-> hdown, ctx |-> ctx])
SSpec == SInit /\ [][SNext]_svars

EmitBehaviour == TLCGet("level") < Depth \/ PrintT(<<"@@B", ToJson(hist)>>)
=============================================================================
