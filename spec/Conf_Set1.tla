---------------------------- MODULE Conf_Set1 ----------------------------
(***************************************************************************)
(* (G) Conformance of the real Set 1 decoder with Set1Decoder.             *)
(* GRAPH = reachable graph extracted from the real object (ScancodeSet1    *)
(* itself, or Keyboard::add_byte): one record per opaque state id, with    *)
(* out[b+1] / post[b+1] for every byte b.  TLC explores the synchronous    *)
(* product <<spec ctx, impl state>> from <<Start, initial id>> and requires *)
(* equal outputs on all 256 bytes in every product state: I/O trace         *)
(* equivalence for byte streams of every length.                           *)
(***************************************************************************)
EXTENDS Set1Decoder, Report, IOUtils

G == ndJsonDeserialize(IOEnv.GRAPH)
Comp == IOEnv.COMP
NG == Len(G)
IOut(x, b) == G[x].out[b + 1]
INext(x, b) == G[x].post[b + 1]

VARIABLE i
cvars == <<ctx, sout, i>>
CInit == Set1Init /\ i = 1
CNext == \E b \in Bytes : G[i].expanded /\ INext(i, b) # 0 /\ Byte1(b) /\ i' = INext(i, b)
View == <<ctx, i>>     \* sout is an observation: hidden from the product state identity
CSpec == CInit /\ [][CNext]_cvars

Conforms ==
  IF ~G[i].expanded
  THEN BadB([prop |-> "C02", kind |-> "unbounded", comp |-> Comp, access |-> G[i].access,
            note |-> "implementation state space exceeds the exploration cap"])
  ELSE ReportAllB({ b \in Bytes : IOut(i, b) # Set1Out(ctx, b) },
         LAMBDA b : [prop |-> IF IOut(i, b)[1] = "panic" THEN "C08" ELSE "C02", kind |-> "io",
                     comp |-> Comp, ctx |-> ctx, access |-> G[i].access, input |-> b,
                     observed |-> IOut(i, b), expected |-> Set1Out(ctx, b)])

(* coverage: number of implementation transitions compared *)
Stats == PrintT(<<"@@S", ToJson([impl_states |-> NG, alphabet |-> 256])>>)
=============================================================================
