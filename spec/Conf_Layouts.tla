---------------------------- MODULE Conf_Layouts ----------------------------
(***************************************************************************)
(* (T) The layout contract judged on a complete function table.            *)
(* TABLE = NDJSON, one record per (object, key, mode) row with the 512     *)
(* outputs o[m+1]; rows in the fixed order object (10 plain layouts in     *)
(* AnyLayout variant order, then - if present - the 10 AnyLayout values    *)
(* and the 10 &AnyLayout references), key (enum order), mode (Map,         *)
(* Ignore).  The table is either extracted from the real layouts by the    *)
(* harness or exported from LayoutModel by TLC (Export_Model): the same    *)
(* predicates judge both.                                                  *)
(*                                                                         *)
(* Each row is one TLC state (reached by interval splitting so that the    *)
(* workers share the rows); the properties are invariants; every violating *)
(* row is reported with all its violating cells.                           *)
(***************************************************************************)
EXTENDS Layouts, Report, IOUtils

R == ndJsonDeserialize(IOEnv.TABLE)
Source == IOEnv.SOURCE            \* "impl" or "model" (informational, copied into reports)
NRows == Len(R)
NPlain == 10 * 124 * 2

KeyIdx == [k \in Keys |-> KeyIndex(k)]
LayIdx == [l \in Layouts |-> (CHOOSE i \in 1..10 : LayoutNames[i] = l) - 1]
ModeIdx(h) == IF h = "Map" THEN 0 ELSE 1
RowOf(obj, k, h) == ((obj * 124 + KeyIdx[k]) * 2 + ModeIdx(h)) + 1
Out(l, k, m, h) == R[RowOf(LayIdx[l], k, h)].o[m + 1]

(* the table is laid out as assumed *)
ASSUME TableShape ==
  /\ NRows \in {NPlain, 3 * NPlain}
  /\ \A i \in 1..NRows :
       LET obj == (i - 1) \div 248   rest == (i - 1) % 248 IN
       /\ R[i].k = KeyAt(rest \div 2)
       /\ R[i].h = (IF rest % 2 = 0 THEN "Map" ELSE "Ignore")
       /\ R[i].layout = LayoutNames[(obj % 10) + 1]
       /\ R[i].form = (IF obj < 10 THEN "plain" ELSE IF obj < 20 THEN "any" ELSE "ref")
       /\ Len(R[i].o) = 512

VARIABLES lo, hi
vars == <<lo, hi>>
Init == lo = 1 /\ hi = NRows
Next == /\ lo < hi
        /\ LET mid == (lo + hi) \div 2 IN
           \/ (lo' = lo /\ hi' = mid)
           \/ (lo' = mid + 1 /\ hi' = hi)
Spec == Init /\ [][Next]_vars

Leaf == lo = hi
Row == R[lo]
IsPlain == Row.form = "plain"
L == Row.layout   K == Row.k   H == Row.h

Cells(S) == { <<m, Row.o[m + 1]>> : m \in S }
Rep1(prop, kind, S, extra) ==
  S = {} \/ BadB([prop |-> prop, kind |-> kind, source |-> Source, obj |-> Row.obj, layout |-> L,
                 key |-> K, mode |-> H, ncells |-> Cardinality(S), cells |-> Cells(S),
                 extra |-> extra])

Panics == { m \in Mods : Row.o[m + 1] = -1000000 }
C08 == Leaf => Rep1("C08", "layout-panic", Panics, <<>>)
C03 == (Leaf /\ IsPlain) => Rep1("C03", "level", C03Bad(Out, L, K, H),
            IF K \in MainBlock(L) THEN <<RefBase(L, K), RefShift(L, K), RefAltGr(L, K)>> ELSE <<>>)
C09a == (Leaf /\ IsPlain /\ H = "Map") => Rep1("C09", "ctrl-letter", C09BadA(Out, L, K), <<Base(Out, L, K)>>)
C09b == (Leaf /\ IsPlain /\ H = "Map") => Rep1("C09", "map-vs-ignore", C09BadB(Out, L, K), <<>>)
C09c == (Leaf /\ IsPlain /\ H = "Ignore") => Rep1("C09", "ctrl-in-ignore", C09BadC(Out, L, K), <<>>)
C10 == (Leaf /\ IsPlain) => Rep1("C10", IF CasePair(Out, L, K) THEN "caps-letter" ELSE "caps-other",
                                 C10Bad(Out, L, K, H), <<Base(Out, L, K), Shifted(Out, L, K)>>)
C11 == (Leaf /\ IsPlain) => Rep1("C11", "abstraction", C11Bad(Out, L, K, H), <<>>)
C12 == (Leaf /\ IsPlain /\ K = "Escape") =>
          LET miss == C12Missing(Out, L, H) IN
          miss = {} \/ BadB([prop |-> "C12", kind |-> "untypeable", source |-> Source, layout |-> L,
                            mode |-> H, chars |-> miss])
C15 == (Leaf /\ IsPlain) => Rep1("C15", "numpad-editing", C15Bad(Out, L, K, H), <<>>)
(* C16 on all 30 objects: the row's own outputs *)
OutRow(l, k, m, h) == Row.o[m + 1]
C16 == Leaf => Rep1("C16", "raw", C16Bad(OutRow, L, K, H), <<>>)
(* C17: wrapper rows equal the wrapped layout's row, cell by cell *)
C17 == (Leaf /\ ~IsPlain) =>
          Rep1("C17", "wrapper", { m \in Mods : Row.o[m + 1] # Out(L, K, m, H) }, <<Row.form>>)
(* C17: the ten plain tables are pairwise distinct, so crossed arms cannot hide (checked once) *)
PlainSig(i) == [ r \in 1..248 |-> R[i * 248 + r].o ]
C17Distinct == (lo = 1 /\ hi = NRows) =>
   \A i, j \in 0..9 : i < j => (PlainSig(i) # PlainSig(j)
       \/ BadB([prop |-> "C17", kind |-> "indistinct", a |-> LayoutNames[i + 1], b |-> LayoutNames[j + 1]]))

(* TLC stops at the first violated invariant of a state, which would let a violation of one
   property mask another property's violation in the same row: evaluate all of them (a tuple is
   evaluated eagerly, each element printing its own report) and conjoin afterwards *)
AllProps == LET r == << C08, C03, C09a, C09b, C09c, C10, C11, C12, C15, C16, C17, C17Distinct >>
            IN  \A j \in 1..Len(r) : r[j]

ASSUME Stats == Note("@@S", [rows |-> NRows, cells |-> NRows * 512, source |-> Source])
=============================================================================
