SPECIFICATION Spec
INVARIANT Agree
CHECK_DEADLOCK FALSE
