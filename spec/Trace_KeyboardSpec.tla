---------------------------- MODULE Trace_KeyboardSpec ----------------------------
(* (V) recorded calls (random interleavings with noise; the repository's own test and example     *)
(* scenarios) re-judged against the full SPECIFICATION: wiring of the three stage specifications. *)
EXTENDS KeyboardSpecStages, TLC, Json, IOUtils

TheRec == ndJsonDeserialize(IOEnv.TRACE)
TheComp == IOEnv.COMP
TheSet == IF TheComp = "kb1" THEN 1 ELSE 2
RecLayoutFn(l, k, m, h) == 983040 + l * 128 + KeyIndex(k)
RecIds == {0, 1}
VARIABLES fs, ss, es, kout, l, sid, sync
SpSName(c) == c
SpEMods(e) == e[1]
SpEMode(e) == e[2]
SpAlive(f, s, e) == TRUE
T == INSTANCE TraceKb WITH
       Rec <- TheRec, Comp <- TheComp, Mode <- "spec",
       FInit <- SpFInit, FBitOut <- SpFBitOut, FBitNext <- SpFBitNext, FClear <- SpFClear, FWordOut <- SpFWordOut,
       SInit <- SpSInit, SOut <- SpSOut, SNext <- SpSNext, SName <- SpSName,
       EInit <- SpEInit, EKeyOut <- SpEKeyOut, EKeyNext <- SpEKeyNext, EModeNext <- SpEModeNext,
       EQuery <- SpEQuery, EMods <- SpEMods, EMode <- SpEMode, Alive <- SpAlive
TSpec == T!TSpec
ObsOK == T!ObsOK
Accepted == T!Accepted
=============================================================================
