SPECIFICATION CSpec
INVARIANT Conforms ObsMatches
VIEW View
CHECK_DEADLOCK FALSE
