---------------------------- MODULE Keyboard ----------------------------
(***************************************************************************)
(* The composite `Keyboard<L, S>` as WIRING: a frame stage, a scancode     *)
(* stage and an event stage connected in sequence (src/lib.rs, impl        *)
(* Keyboard).  One action per public method, mirroring the code one to one: *)
(*   add_bit   : frame stage; an accepted byte goes on to the scancode     *)
(*               stage; "incomplete" and frame errors are returned as is   *)
(*   add_word  : frame check only (register untouched); accepted byte ->   *)
(*               scancode stage; a rejected frame is dropped               *)
(*   add_byte  : scancode stage only                                       *)
(*   process_keyevent : event stage only                                   *)
(*   clear     : resets the bit framing only                               *)
(*   set_ctrl_handling : the event stage's mode only                       *)
(*                                                                         *)
(* C18 says the composite behaves exactly like the three stages used       *)
(* separately.  So the three stages are PARAMETERS here, given as          *)
(* deterministic automata.  They are instantiated with the stage           *)
(* specifications (Ps2Frame, Set1/Set2Decoder, EventDecoder) for model     *)
(* checking, and with the automata extracted from the real, separately     *)
(* used Ps2Decoder / ScancodeSet / EventDecoder objects for conformance -  *)
(* so that the check of C18 judges the wiring and nothing else.            *)
(***************************************************************************)
EXTENDS Integers, Sequences, FiniteSets

CONSTANTS
  FInit, FBitOut(_, _), FBitNext(_, _), FClear(_), FWordOut(_),   \* frame stage
  SInit, SOut(_, _), SNext(_, _),                                 \* scancode stage
  EInit, EKeyOut(_, _, _), EKeyNext(_, _, _), EModeNext(_, _)     \* event stage

VARIABLES fs, ss, es,      \* the states of the three stages
          kout             \* what the Keyboard method returned (observation)
kvars == <<fs, ss, es, kout>>
KbState == <<fs, ss, es>>

KbInit == fs = FInit /\ ss = SInit /\ es = EInit /\ kout = <<"none">>

(* hand one accepted byte to the scancode stage *)
FeedByte(y) == kout' = SOut(ss, y) /\ ss' = SNext(ss, y)

KbAddBit(b) ==
  /\ fs' = FBitNext(fs, b)
  /\ LET r == FBitOut(fs, b) IN
       IF r[1] = "byte" THEN FeedByte(r[2])
       ELSE kout' = r /\ ss' = ss            \* "none" (frame incomplete) or a frame error: dropped
  /\ es' = es

KbAddWord(w) ==
  /\ fs' = fs                                \* the register is not involved
  /\ LET r == FWordOut(w) IN
       IF r[1] = "byte" THEN FeedByte(r[2])
       ELSE kout' = r /\ ss' = ss            \* rejected frame: dropped
  /\ es' = es

KbAddByte(y) == FeedByte(y) /\ fs' = fs /\ es' = es

KbProcessKeyEvent(code, st) ==
  /\ kout' = EKeyOut(es, code, st) /\ es' = EKeyNext(es, code, st)
  /\ fs' = fs /\ ss' = ss

KbClear == fs' = FClear(fs) /\ kout' = <<"none">> /\ ss' = ss /\ es' = es

KbSetCtrlHandling(h) == es' = EModeNext(es, h) /\ kout' = <<"none">> /\ fs' = fs /\ ss' = ss

(* pure result functions (what each call returns in a given state) *)
BitResult(f, s, b) == LET r == FBitOut(f, b) IN IF r[1] = "byte" THEN SOut(s, r[2]) ELSE r
WordResult(s, w) == LET r == FWordOut(w) IN IF r[1] = "byte" THEN SOut(s, r[2]) ELSE r
=============================================================================
