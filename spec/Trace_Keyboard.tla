---------------------------- MODULE Trace_Keyboard ----------------------------
(* (V) for C18: recorded calls against the wiring of the three REAL stages used separately. *)
EXTENDS KeyboardImplStages, TLC

TheRec == ndJsonDeserialize(IOEnv.TRACE)
TheComp == IOEnv.COMP
VARIABLES fs, ss, es, kout, l, sid, sync
ImSName(x) == x
ImAlive(f, s, e) == StageExplored(f, s, e)
T == INSTANCE TraceKb WITH
       Rec <- TheRec, Comp <- TheComp, Mode <- "wiring",
       FInit <- ImFInit, FBitOut <- ImFBitOut, FBitNext <- ImFBitNext, FClear <- ImFClear, FWordOut <- ImFWordOut,
       SInit <- ImSInit, SOut <- ImSOut, SNext <- ImSNext, SName <- ImSName,
       EInit <- ImEInit, EKeyOut <- ImEKeyOut, EKeyNext <- ImEKeyNext, EModeNext <- ImEModeNext,
       EQuery <- ImEQuery, EMods <- ImEMods, EMode <- ImEMode, Alive <- ImAlive
TSpec == T!TSpec
ObsOK == T!ObsOK
Accepted == T!Accepted
=============================================================================
