---------------------------- MODULE Trace_Keyboard ----------------------------
(***************************************************************************)
(* (V) Trace validation for C18: calls recorded from a real Keyboard       *)
(* (seeded random interleavings of all entry points with injected line     *)
(* noise - flipped, dropped and extra bits, clear() on simulated timeouts  *)
(* - or scripted scenarios) are replayed through the wiring of             *)
(* Keyboard.tla instantiated with the three real stages used separately.   *)
(* Every recorded line carries the input, the returned value, the layout   *)
(* query made, the public state (get_modifiers, get_ctrl_handling) and     *)
(* opaque ids of the three stage renderings after the call.  For every     *)
(* line TLC checks:                                                        *)
(*   - the returned value and the layout query are what the wiring yields, *)
(*   - the public state equals the event stage's,                          *)
(*   - a stage the wiring does not feed in this call keeps its opaque id.  *)
(* The wiring is deterministic and total, so the whole trace is consumed;  *)
(* every non-conforming line is recorded (at most 200 printed) and the     *)
(* POSTCONDITION fails if there is one, or if a line was left unconsumed.  *)
(***************************************************************************)
EXTENDS KeyboardImplStages, TLC

Rec == ndJsonDeserialize(IOEnv.TRACE)
Comp == IOEnv.COMP
N == Len(Rec)

VARIABLES fs, ss, es, kout, l, sid
tvars == <<fs, ss, es, kout, l, sid>>

K == INSTANCE Keyboard WITH
       FInit <- ImFInit, FBitOut <- ImFBitOut, FBitNext <- ImFBitNext, FClear <- ImFClear, FWordOut <- ImFWordOut,
       SInit <- ImSInit, SOut <- ImSOut, SNext <- ImSNext,
       EInit <- ImEInit, EKeyOut <- ImEKeyOut, EKeyNext <- ImEKeyNext, EModeNext <- ImEModeNext

(* count and print non-conforming lines without stopping (register 1 = count) *)
Flag(rec) == /\ TLCSet(1, TLCGet(1) + 1)
             /\ (IF TLCGet(1) <= 200 THEN PrintT(<<"@@M", ToJson(rec)>>) ELSE TRUE)

Step(x) ==
  CASE x[1] = "bit" -> K!KbAddBit(x[2])
    [] x[1] = "clear" -> K!KbClear
    [] x[1] = "word" -> K!KbAddWord(x[2])
    [] x[1] = "byte" -> K!KbAddByte(x[2])
    [] x[1] = "key" -> K!KbProcessKeyEvent(x[2], x[3])
    [] x[1] = "mode" -> K!KbSetCtrlHandling(x[2])
Reset == fs' = ImFInit /\ ss' = ImSInit /\ es' = ImEInit /\ kout' = <<"none">>

ExpQuery(x) == IF x[1] = "key" THEN ImEQuery(es, x[2], x[3]) ELSE <<"noq">>
(* which stages (1 frame, 2 scancode, 3 event) this call feeds in the current state *)
Fed(x) == CASE x[1] = "bit" -> {1} \cup (IF ImFBitOut(fs, x[2])[1] = "byte" THEN {2} ELSE {})
            [] x[1] = "clear" -> {1}
            [] x[1] = "word" -> IF ImFWordOut(x[2])[1] = "byte" THEN {2} ELSE {}   \* rejected: dropped
            [] x[1] = "byte" -> {2}
            [] x[1] \in {"key", "mode"} -> {3}
            [] OTHER -> {1, 2, 3}

(* checks made while consuming line l (pre-state = current state) *)
CheckLine ==
  LET r == Rec[l]  x == r["in"] IN
  IF x[1] = "reset" THEN TRUE ELSE
  LET exp == CASE x[1] = "bit" -> K!BitResult(fs, ss, x[2])
               [] x[1] = "word" -> K!WordResult(ss, x[2])
               [] x[1] = "byte" -> ImSOut(ss, x[2])
               [] x[1] = "key" -> ImEKeyOut(es, x[2], x[3])
               [] OTHER -> <<"none">>
  IN
  (* IF, not \/ : inside an action TLC evaluates every disjunct *)
  /\ IF r.ret = exp /\ r.q = ExpQuery(x) THEN TRUE
     ELSE Flag([prop |-> "C18", kind |-> "trace-ret", comp |-> Comp, line |-> l, input |-> x,
                observed |-> r.ret, expected |-> exp, observed_query |-> r.q, expected_query |-> ExpQuery(x)])
  /\ IF Len(sid) # 3 \/ Len(r.stage) # 3 THEN TRUE
     ELSE \A s \in {1, 2, 3} \ Fed(x) :
            IF r.stage[s] = sid[s] THEN TRUE
            ELSE Flag([prop |-> "C18", kind |-> "trace-stage", comp |-> Comp, line |-> l, input |-> x, stage |-> s,
                       note |-> "a stage this call does not feed changed its state"])

TInit == /\ K!KbInit /\ l = 1 /\ sid = <<>> /\ TLCSet(1, 0)
TNext == /\ l <= N /\ fs # 0 /\ ss # 0 /\ es # 0
         /\ CheckLine
         /\ LET x == Rec[l]["in"] IN IF x[1] = "reset" THEN Reset ELSE Step(x)
         /\ l' = l + 1
         /\ sid' = Rec[l].stage
TSpec == TInit /\ [][TNext]_tvars

(* public state after each consumed line *)
ObsOK == (l > 1 /\ es # 0 /\ Rec[l - 1].ret[1] # "panic") =>
  ( (Rec[l - 1].obs[1] = ImEMods(es) /\ Rec[l - 1].obs[2] = ImEMode(es))
    \/ Flag([prop |-> "C18", kind |-> "trace-obs", comp |-> Comp, line |-> l - 1, input |-> Rec[l - 1]["in"],
             observed |-> Rec[l - 1].obs, expected |-> <<ImEMods(es), ImEMode(es)>>]) )

Accepted ==
  /\ PrintT(<<"@@S", ToJson([lines |-> N, consumed |-> TLCGet("stats").diameter - 1, flagged |-> TLCGet(1)])>>)
  /\ TLCGet(1) = 0
  /\ ( TLCGet("stats").diameter = N + 1
       \/ (PrintT(<<"@@M", ToJson([prop |-> "C18", kind |-> "trace-not-consumed", comp |-> Comp,
                                   consumed |-> TLCGet("stats").diameter - 1, lines |-> N])>>) /\ FALSE) )
=============================================================================
