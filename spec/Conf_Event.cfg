SPECIFICATION CSpec
CONSTANT LayoutFn <- RecLayoutFn
CONSTANT LayoutIds <- RecIds
INVARIANT Conforms ObsMatches ModeMatches ModsShown
VIEW View
CHECK_DEADLOCK FALSE
