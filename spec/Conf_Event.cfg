SPECIFICATION CSpec
CONSTANT LayoutFn <- RecLayoutFn
CONSTANT LayoutIds <- RecIds
INVARIANT AllProps
VIEW View
CHECK_DEADLOCK FALSE
