SPECIFICATION Spec
INVARIANT RowOK
CHECK_DEADLOCK FALSE
