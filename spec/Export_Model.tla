---------------------------- MODULE Export_Model ----------------------------
(***************************************************************************)
(* Writes the deterministic layout model as a function table in exactly    *)
(* the format of the table the harness extracts from the real layouts      *)
(* (10 plain layouts x 124 keys x 2 modes, 512 cells per row), so that the *)
(* SAME module (Conf_Layouts, SOURCE = "model") proves that the model      *)
(* satisfies the whole layout contract - i.e. the contract is satisfiable  *)
(* and the reference data is self-consistent (C12 forces the German        *)
(* reference to contain AltGr { [ ] } \, C10 forces every national letter   *)
(* to be a case pair, ...).                                                *)
(***************************************************************************)
EXTENDS LayoutModel, Json, IOUtils
ModeSeq == <<"Map", "Ignore">>
Rows == [ i \in 1..(10 * 124 * 2) |->
            LET obj == (i - 1) \div 248   rest == (i - 1) % 248
                l == LayoutNames[obj + 1]  k == KeyAt(rest \div 2)  h == ModeSeq[(rest % 2) + 1]
            IN  [obj |-> l, form |-> "plain", layout |-> l, k |-> k, h |-> h,
                 o |-> [m \in 1..512 |-> Model(l, k, m - 1, h)]] ]
ASSUME Exported == ndJsonSerialize(IOEnv.OUT, Rows) /\ PrintT(<<"@@S", ToJson([rows |-> Len(Rows)])>>)
=============================================================================
