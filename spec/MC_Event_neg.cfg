SPECIFICATION MCSpec
CONSTANT LayoutFn <- MCLayoutFn
CONSTANT LayoutIds <- MCLayoutIds
CONSTANT EvMods <- BrokenEvMods
INVARIANT TypeOK C04_ModsAreHistory
PROPERTY C04_Frame C04_SettersLeaveMods C14_OnePerPress C14_SilentOtherwise C14_ModifierPressIsRawSelf C14_LiveArguments
VIEW View
CHECK_DEADLOCK FALSE
