---------------------------- MODULE World ----------------------------
(***************************************************************************)
(* Environment model: a physical PS/2 keyboard, the optional i8042         *)
(* controller translation, and two hosts running the pc-keyboard pipeline  *)
(* (scancode stage + event stage + layout), one fed Scancode Set 2 as the  *)
(* keyboard sends it, one fed Set 1 as the i8042 translates it.            *)
(*                                                                         *)
(*   physical keys --make/break/typematic--> Set 2 sequences --+--> host2  *)
(*                                                              |          *)
(*                                        i8042 translation ----+--> host1 *)
(*                                                                         *)
(* The keyboard emits one byte SEQUENCE per key action (make, break,       *)
(* typematic repeat), including the compound sequences of Pause            *)
(* (E1 14 77 E1 F0 14 F0 77, on press only) and PrintScreen                *)
(* (E0 12 E0 7C / E0 F0 7C E0 F0 12).  Both hosts consume one sequence at  *)
(* a time, so their outputs can be compared step by step.                  *)
(*                                                                         *)
(* End-to-end statements checked here (they are consequences of the stage  *)
(* specifications + the reference tables, which is the point: TLC shows    *)
(* the design delivers what a user of the whole pipeline relies on):       *)
(*   SetIndependent   events, decoded keys and modifier state are the same *)
(*                    whichever scancode set the hardware delivers (C13's  *)
(*                    end-to-end clause; README "losslessly converted")    *)
(*   ModsTrackHeld    at quiescence every momentary modifier flag equals   *)
(*                    "that key is physically held" (typematic included)   *)
(*   PauseIsTransparent  Pause yields PauseBreak, leaves NumLock alone and *)
(*                    leaves no hidden Ctrl behind                         *)
(*   LocksCountPresses   NumLock / CapsLock = parity of make codes received *)
(*                    (typematic repeats of a lock key toggle it again!)   *)
(*   OneDecodedPerMake   every make sequence of an ordinary key yields     *)
(*                    exactly one decoded key, every break none            *)
(***************************************************************************)
EXTENDS Integers, Sequences, FiniteSets, KeyCodes, TLC

CONSTANTS PhysKeys,        \* the physical keys of this model run (a subset of Keys, plus "Pause")
          MaxWire,         \* how many sequences may be in flight
          LayoutName       \* which layout both hosts use

LM == INSTANCE LayoutModel
WorldLayoutFn(l, k, m, h) == LM!Model(LayoutName, k, m, h)
H2 == INSTANCE KeyboardSpecStages WITH SetNo <- 2, LayoutFn <- WorldLayoutFn, LayoutIds <- {0}
H1 == INSTANCE KeyboardSpecStages WITH SetNo <- 1, LayoutFn <- WorldLayoutFn, LayoutIds <- {0}
X == INSTANCE Xlate8042

E0 == 224  E1 == 225  F0 == 240

(* ---- the keyboard: Set 2 sequences per physical key action ---- *)
Row(k) == CHOOSE r \in X!KeyTable : r[1] = k
Pfx(k) == IF Row(k)[4] = "E0" THEN <<E0>> ELSE IF Row(k)[4] = "E1" THEN <<E1>> ELSE <<>>
MakeSeq(k) ==
  CASE k = "Pause" -> <<E1, 20, 119, E1, F0, 20, F0, 119>>
    [] k = "PrintScreen" -> <<E0, 18, E0, 124>>
    [] OTHER -> Pfx(k) \o <<Row(k)[5]>>
BreakSeq(k) ==
  CASE k = "Pause" -> <<>>                              \* Pause has no break code
    [] k = "PrintScreen" -> <<E0, F0, 124, E0, F0, 18>>
    [] OTHER -> Pfx(k) \o <<F0, Row(k)[5]>>

(* ---- the i8042: F0 is swallowed and sets bit 7 of the next translated code ---- *)
RECURSIVE Translate(_, _)
Translate(bs, brk) ==
  IF bs = <<>> THEN <<>>
  ELSE LET b == Head(bs) IN
       IF b = F0 THEN Translate(Tail(bs), TRUE)
       ELSE IF b \in {E0, E1} THEN <<b>> \o Translate(Tail(bs), brk)
       ELSE <<X!Xlate(b) + (IF brk THEN 128 ELSE 0)>> \o Translate(Tail(bs), FALSE)

(* ---- a host: run a byte sequence through scancode + event stage; collect what it reports ---- *)
RECURSIVE RunHost(_, _, _, _, _)
(* returns <<scan ctx, event state, sequence of <<event, decoded>> >> *)
RunHost(SOutOp(_, _), SNextOp(_, _), c, e, bs) ==
  IF bs = <<>> THEN <<c, e, <<>>>>
  ELSE LET o == SOutOp(c, Head(bs))
           c2 == SNextOp(c, Head(bs))
       IN  IF o[1] = "ev"
           THEN LET d == H2!SpEKeyOut(e, o[2], o[3])
                    e2 == H2!SpEKeyNext(e, o[2], o[3])
                    r == RunHost(SOutOp, SNextOp, c2, e2, Tail(bs))
                IN  <<r[1], r[2], << <<o, d>> >> \o r[3]>>
           ELSE LET r == RunHost(SOutOp, SNextOp, c2, e, Tail(bs))
                IN  IF o[1] = "err" THEN <<r[1], r[2], << <<o, <<"none">>>> >> \o r[3]>> ELSE r

VARIABLES held,        \* physically held keys
          last,        \* the key whose make code typematic would repeat ("none" if none)
          wire,        \* sequences emitted by the keyboard, not yet consumed by the hosts
          c2, e2,      \* host 2 (Set 2): scancode context, event state <<mods, mode, layout>>
          c1, e1,      \* host 1 (Set 1 after i8042 translation)
          out2, out1,  \* what each host reported for the sequence consumed last (observation)
          numPresses, capsPresses    \* parity of NumLock / CapsLock make sequences sent (presses AND repeats)
wvars == <<held, last, wire, c2, e2, c1, e1, out2, out1, numPresses, capsPresses>>

WInit == /\ held = {} /\ last = "none" /\ wire = <<>>
         /\ c2 = "Start" /\ e2 = H2!SpEInit /\ c1 = "Start" /\ e1 = H1!SpEInit
         /\ out2 = <<>> /\ out1 = <<>> /\ numPresses = 0 /\ capsPresses = 0

Emit(s) == IF s = <<>> THEN wire' = wire ELSE wire' = Append(wire, s)
Press(k) == /\ k \notin held /\ Len(wire) < MaxWire
            /\ held' = IF k = "Pause" THEN held ELSE held \cup {k}     \* Pause sends everything on press
            /\ last' = IF k = "Pause" THEN last ELSE k
            /\ Emit(MakeSeq(k))
            /\ numPresses' = IF k = "NumpadLock" THEN 1 - numPresses ELSE numPresses
            /\ capsPresses' = IF k = "CapsLock" THEN 1 - capsPresses ELSE capsPresses
            /\ UNCHANGED <<c2, e2, c1, e1, out2, out1>>
Release(k) == /\ k \in held /\ Len(wire) < MaxWire
              /\ held' = held \ {k} /\ last' = IF last = k THEN "none" ELSE last
              /\ Emit(BreakSeq(k))
              /\ UNCHANGED <<c2, e2, c1, e1, out2, out1, numPresses, capsPresses>>
(* typematic: the most recently pressed key, while still held, repeats its make sequence *)
(* DELIBERATELY MODELLED DEVIATION from what a user might expect: pc-keyboard treats every make code *)
(* as a press, so a typematic repeat of NumLock / CapsLock toggles the lock again (TLC found this as *)
(* a violation of the first version of LocksCountPresses, which counted physical presses only).     *)
(* The counters therefore count make sequences, repeats included - what the code actually does.     *)
Typematic == /\ last # "none" /\ last \in held /\ Len(wire) < MaxWire
             /\ Emit(MakeSeq(last))
             /\ numPresses' = IF last = "NumpadLock" THEN 1 - numPresses ELSE numPresses
             /\ capsPresses' = IF last = "CapsLock" THEN 1 - capsPresses ELSE capsPresses
             /\ UNCHANGED <<held, last, c2, e2, c1, e1, out2, out1>>
HostStep == /\ wire # <<>>
            /\ LET s == Head(wire)
                   r2 == RunHost(H2!SpSOut, H2!SpSNext, c2, e2, s)
                   r1 == RunHost(H1!SpSOut, H1!SpSNext, c1, e1, Translate(s, FALSE))
               IN  /\ c2' = r2[1] /\ e2' = r2[2] /\ out2' = r2[3]
                   /\ c1' = r1[1] /\ e1' = r1[2] /\ out1' = r1[3]
            /\ wire' = Tail(wire)
            /\ UNCHANGED <<held, last, numPresses, capsPresses>>

WNext == (\E k \in PhysKeys : Press(k) \/ Release(k)) \/ Typematic \/ HostStep
WSpec == WInit /\ [][WNext]_wvars
View == <<held, last, wire, c2, e2, c1, e1, numPresses, capsPresses>>

-----------------------------------------------------------------------------
Quiescent == wire = <<>>
Has(m, i) == (m \div (2^i)) % 2 = 1

TypeOK == /\ held \subseteq PhysKeys /\ Len(wire) <= MaxWire
          /\ c2 \in H2!SpContexts /\ c1 \in H1!SpContexts
(* both hosts are back in the unprefixed context after every sequence *)
InSync == c2 = "Start" /\ c1 = "Start"
(* C13 end to end: everything above the scancode layer is independent of the scancode set *)
SetIndependent == out2 = out1 /\ e2 = e1
(* no undecodable sequence: a real keyboard's sequences are all understood *)
NoErrors == \A j \in 1..Len(out2) : out2[j][1][1] = "ev"

FlagOfKey == [ LShift |-> 0, RShift |-> 1, LControl |-> 2, RControl |-> 3, LAlt |-> 6, RAltGr |-> 7 ]
ModsTrackHeld == Quiescent =>
   \A k \in PhysKeys \cap DOMAIN FlagOfKey : (k \in held) <=> Has(e2[1], FlagOfKey[k])
PauseIsTransparent == Quiescent => ~Has(e2[1], 8)          \* no hidden Ctrl left behind
LocksCountPresses == Quiescent =>
   /\ Has(e2[1], 4) = (numPresses = 0)                     \* NumLock starts on; Pause never counts
   /\ Has(e2[1], 5) = (capsPresses = 1)

(* exactly one decoded key per make sequence of an ordinary key, none per break; the compound keys
   add their hidden companions (RAlt2 for PrintScreen, RControl2 for Pause) *)
Decoded(o) == { j \in 1..Len(o) : o[j][2][1] = "key" }
OneDecodedPerSequence ==
  [][HostStep =>
       LET s == Head(wire)
           n == Cardinality(Decoded(out2')) IN
       \/ (s = MakeSeq("Pause") /\ n = 2 /\ out2'[2][2] = <<"key", Raw("PauseBreak")>>)
       \/ (s = MakeSeq("PrintScreen") /\ n = 2 /\ out2'[2][2] = <<"key", Raw("PrintScreen")>>)
       \/ (s = BreakSeq("PrintScreen") /\ n = 0)
       \/ (\E k \in PhysKeys \ {"Pause", "PrintScreen"} : s = MakeSeq(k) /\ n = 1)
       \/ (\E k \in PhysKeys \ {"Pause", "PrintScreen"} : s = BreakSeq(k) /\ n = 0)]_wvars
=============================================================================
