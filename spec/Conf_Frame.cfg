SPECIFICATION CSpec
INVARIANT Conforms BoundaryIsInitial
VIEW View
CHECK_DEADLOCK FALSE
