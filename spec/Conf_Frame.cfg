SPECIFICATION CSpec
INVARIANT AllProps
VIEW View
CHECK_DEADLOCK FALSE
