---------------------------- MODULE Conf_Preds ----------------------------
(* (T) The five public `Modifiers` predicates on all 512 modifier values (C11, second half). *)
EXTENDS Layouts, Report, IOUtils
P == ndJsonDeserialize(IOEnv.PREDS)
Expected(m) == [shifted |-> IsShifted(m), ctrl |-> IsCtrl(m), alt |-> IsAlt(m), altgr |-> IsAltGr(m),
                caps |-> IsCaps(m)]
Observed(r) == [shifted |-> r.shifted, ctrl |-> r.ctrl, alt |-> r.alt, altgr |-> r.altgr, caps |-> r.caps]
ASSUME Shape == Len(P) = 512 /\ \A j \in 1..512 : P[j].m = j - 1 /\ P[j].back = j - 1
ASSUME Stats == Note("@@S", [rows |-> Len(P)])
ASSUME PredsHold ==
  ReportAll({ j \in 1..512 : Observed(P[j]) # Expected(j - 1) },
    LAMBDA j : [prop |-> "C11", kind |-> "predicate", m |-> j - 1, observed |-> Observed(P[j]),
                expected |-> Expected(j - 1)])
=============================================================================
