---------------------------- MODULE Conf_Words ----------------------------
(***************************************************************************)
(* (T) add_word on all 65 536 u16 values, through Ps2Decoder::add_word and *)
(* through Keyboard::add_word (Set 2): each of the 256 records (256 words  *)
(* each) is one TLC state.  For w < 2048 the result must equal CheckWord(w)*)
(* (C05), and through Keyboard: frame errors pass through, accepted bytes  *)
(* are decoded by the Set 2 decoder from its initial state (C18/C05).      *)
(* For w >= 2048 (outside the documented precondition) only a normal       *)
(* return is required (C08).                                               *)
(***************************************************************************)
EXTENDS Integers, Sequences, Report, IOUtils
(* the stage modules are used for their constant-level operators only *)
F == INSTANCE Ps2Frame WITH bits <- <<>>, fout <- <<"none">>
CheckWord(w) == F!CheckWord(w)
(* what the same fresh Keyboard returns when the byte is given to add_byte directly (state 1 of *)
(* the graph extracted from Keyboard::add_byte): Keyboard::add_word must treat an accepted      *)
(* frame's byte exactly as add_byte treats that byte - which key that is belongs to C01, and    *)
(* whether add_byte itself is wired correctly belongs to C18, not to this check.               *)
G2 == ndJsonDeserialize(IOEnv.GRAPH2)

W == ndJsonDeserialize(IOEnv.WORDS)

VARIABLE r
Init == r \in 1..Len(W)
Next == UNCHANGED r
Spec == Init /\ [][Next]_r

KbExpected(w) == LET c == CheckWord(w) IN IF c[1] = "err" THEN c ELSE G2[1].out[c[2] + 1]

Conforms ==
  LET base == W[r].base IN
  LET res == <<
     ReportAllB({ x \in 0..255 : base + x < 2048 /\ W[r].r[x + 1] # CheckWord(base + x) },
       LAMBDA x : [prop |-> IF W[r].r[x + 1][1] = "panic" THEN "C08" ELSE "C05", also |-> <<"C05">>,
                   kind |-> "word", comp |-> "frame", word |-> base + x,
                   observed |-> W[r].r[x + 1], expected |-> CheckWord(base + x)]),
     ReportAllB({ x \in 0..255 : base + x < 2048 /\ W[r].kb[x + 1] # KbExpected(base + x) },
       LAMBDA x : [prop |-> IF W[r].kb[x + 1][1] = "panic" THEN "C08" ELSE "C05", also |-> <<"C05">>,
                   kind |-> "word", comp |-> "kb2", word |-> base + x,
                   observed |-> W[r].kb[x + 1], expected |-> KbExpected(base + x)]),
     ReportAllB({ x \in 0..255 : W[r].r[x + 1][1] = "panic" \/ W[r].kb[x + 1][1] = "panic" },
       LAMBDA x : [prop |-> "C08", kind |-> "word-panic", comp |-> "frame/kb2", word |-> base + x,
                   observed |-> W[r].r[x + 1]]) >>
  IN \A j \in 1..Len(res) : res[j]
=============================================================================
