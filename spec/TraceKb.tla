---------------------------- MODULE TraceKb ----------------------------
(***************************************************************************)
(* (V) Trace validation core, parameterised by the three stage automata    *)
(* (see Keyboard.tla).  Calls recorded from a real Keyboard are replayed   *)
(* through the wiring; for every recorded line TLC checks the returned     *)
(* value, the layout query made, the public state after the call, and that *)
(* a stage the call does not feed keeps its opaque id.  The wiring is      *)
(* deterministic and total, so the whole trace is consumed; every          *)
(* non-conforming line is recorded (at most 200 printed) and the           *)
(* POSTCONDITION fails if there is one or if a line was left unconsumed.   *)
(*                                                                         *)
(* Instantiated twice: Trace_Keyboard (stages = the REAL stages used       *)
(* separately: decides C18, wiring only) and Trace_KeyboardSpec (stages =  *)
(* the stage SPECIFICATIONS: re-judges the same recorded calls - random    *)
(* interleavings and the repository's own test scenarios - against the     *)
(* full specification, attributing each difference to the stage's          *)
(* property).                                                              *)
(***************************************************************************)
EXTENDS Integers, Sequences, FiniteSets, TLC, Json

CONSTANTS
  Rec, Comp, Mode,         \* the trace, the component name, "wiring" or "spec"
  FInit, FBitOut(_, _), FBitNext(_, _), FClear(_), FWordOut(_),
  SInit, SOut(_, _), SNext(_, _), SName(_),
  EInit, EKeyOut(_, _, _), EKeyNext(_, _, _), EModeNext(_, _),
  EQuery(_, _, _), EMods(_), EMode(_),
  Alive(_, _, _)          \* FALSE once a stage automaton has no successor (it panicked standalone)

N == Len(Rec)
VARIABLES fs, ss, es, kout, l, sid,
          sync        \* FALSE from the first non-conforming line of a run until the next reset: once the real
                      \* object has left the specification's path, later differences are consequences of the
                      \* first one and must not be attributed to other properties
tvars == <<fs, ss, es, kout, l, sid, sync>>

K == INSTANCE Keyboard

(* register 1 = number of non-conforming lines; register 2 = the distinct cases already printed  *)
(* (a case = the record without its line number), so that many repetitions of one case - e.g. a   *)
(* known finding - cannot crowd out a different one; at most 300 distinct cases are printed       *)
CaseOf(rec) == [f \in (DOMAIN rec) \ {"line"} |-> rec[f]]
Flag(rec) == /\ TLCSet(1, TLCGet(1) + 1)
             /\ IF CaseOf(rec) \in TLCGet(2) \/ Cardinality(TLCGet(2)) >= 300 THEN TRUE
                ELSE TLCSet(2, TLCGet(2) \cup {CaseOf(rec)}) /\ PrintT(<<"@@M", ToJson(rec)>>)

Step(x) ==
  CASE x[1] = "bit" -> K!KbAddBit(x[2])
    [] x[1] = "clear" -> K!KbClear
    [] x[1] = "word" -> K!KbAddWord(x[2])
    [] x[1] = "byte" -> K!KbAddByte(x[2])
    [] x[1] = "key" -> K!KbProcessKeyEvent(x[2], x[3])
    [] x[1] = "mode" -> K!KbSetCtrlHandling(x[2])
Reset == fs' = FInit /\ ss' = SInit /\ es' = EInit /\ kout' = <<"none">>

ExpQuery(x) == IF x[1] = "key" THEN EQuery(es, x[2], x[3]) ELSE <<"noq">>
Fed(x) == CASE x[1] = "bit" -> {1} \cup (IF FBitOut(fs, x[2])[1] = "byte" THEN {2} ELSE {})
            [] x[1] = "clear" -> {1}
            [] x[1] = "word" -> IF FWordOut(x[2])[1] = "byte" THEN {2} ELSE {}
            [] x[1] = "byte" -> {2}
            [] x[1] \in {"key", "mode"} -> {3}
            [] OTHER -> {1, 2, 3}

(* In "spec" mode a difference is attributed by the entry point used: a byte handed straight to the
   scancode stage is that set's property, a key event the event stage's; a difference seen through
   the bit / word entry points is reported as a framing difference (the framing properties are decided
   exhaustively elsewhere and do not consume these records). *)
PropOf(x, observed) ==
  IF observed[1] = "panic" THEN "C08"
  ELSE IF Mode = "wiring" THEN "C18"
  ELSE CASE x[1] = "bit" -> "C06"
         [] x[1] = "word" -> "C05"
         [] x[1] = "byte" -> (IF Comp = "kb1" THEN "C02" ELSE "C01")
         [] x[1] = "key" -> "C14"
         [] OTHER -> "C18"

(* the byte this call hands to the scancode stage, or -1 *)
ByteFed(x) == CASE x[1] = "byte" -> x[2]
                [] x[1] = "bit" -> (IF FBitOut(fs, x[2])[1] = "byte" THEN FBitOut(fs, x[2])[2] ELSE -1)
                [] x[1] = "word" -> (IF FWordOut(x[2])[1] = "byte" THEN FWordOut(x[2])[2] ELSE -1)
                [] OTHER -> -1

(* does line l conform (result, query, unfed stages)? *)
LineOK ==
  LET r == Rec[l]  x == r["in"] IN
  IF x[1] = "reset" THEN TRUE ELSE
  LET exp == CASE x[1] = "bit" -> K!BitResult(fs, ss, x[2])
               [] x[1] = "word" -> K!WordResult(ss, x[2])
               [] x[1] = "byte" -> SOut(ss, x[2])
               [] x[1] = "key" -> EKeyOut(es, x[2], x[3])
               [] OTHER -> <<"none">>
  IN /\ r.ret = exp /\ r.q = ExpQuery(x)
     /\ (Mode # "wiring" \/ Len(sid) # 3 \/ Len(r.stage) # 3
         \/ \A s \in {1, 2, 3} \ Fed(x) : r.stage[s] = sid[s])

(* a non-conforming line after which the real object can no longer be assumed to be where the wiring
   is: the two disagree on whether a sequence / frame was completed, or an unfed stage moved.  (A wrong
   key or error for a COMPLETED sequence leaves both sides at a sequence boundary, and a wrong decoded
   key leaves the event stage's modifiers - compared separately - alone: checking continues.) *)
Desyncs ==
  LET r == Rec[l]  x == r["in"] IN
  IF x[1] = "reset" \/ LineOK THEN FALSE
  ELSE LET exp == CASE x[1] = "bit" -> K!BitResult(fs, ss, x[2])
                    [] x[1] = "word" -> K!WordResult(ss, x[2])
                    [] x[1] = "byte" -> SOut(ss, x[2])
                    [] OTHER -> <<"none">>
       IN  \/ (x[1] \in {"bit", "word", "byte"} /\ ((r.ret[1] = "none") # (exp[1] = "none")))
           \/ (x[1] = "bit" /\ r.ret # exp)
           \/ r.ret[1] = "panic"
           \/ (Mode = "wiring" /\ Len(sid) = 3 /\ Len(r.stage) = 3
                 /\ \E s \in {1, 2, 3} \ Fed(x) : r.stage[s] # sid[s])

CheckLine ==
  LET r == Rec[l]  x == r["in"] IN
  IF x[1] = "reset" \/ ~sync THEN TRUE ELSE
  LET exp == CASE x[1] = "bit" -> K!BitResult(fs, ss, x[2])
               [] x[1] = "word" -> K!WordResult(ss, x[2])
               [] x[1] = "byte" -> SOut(ss, x[2])
               [] x[1] = "key" -> EKeyOut(es, x[2], x[3])
               [] OTHER -> <<"none">>
  IN
  (* IF, not \/ : inside an action TLC evaluates every disjunct *)
  /\ IF r.ret = exp /\ r.q = ExpQuery(x) THEN TRUE
     ELSE Flag([prop |-> PropOf(x, r.ret), kind |-> IF Mode = "wiring" THEN "trace-ret" ELSE "trace-spec",
                comp |-> Comp, line |-> l, input |-> x, ctx |-> SName(ss), byte |-> ByteFed(x),
                observed |-> r.ret, expected |-> exp, observed_query |-> r.q, expected_query |-> ExpQuery(x)])
  /\ IF Mode # "wiring" \/ Len(sid) # 3 \/ Len(r.stage) # 3 THEN TRUE
     ELSE \A s \in {1, 2, 3} \ Fed(x) :
            IF r.stage[s] = sid[s] THEN TRUE
            ELSE Flag([prop |-> "C18", kind |-> "trace-stage", comp |-> Comp, line |-> l, input |-> x, stage |-> s,
                       note |-> "a stage this call does not feed changed its state"])

TInit == /\ K!KbInit /\ l = 1 /\ sid = <<>> /\ sync = TRUE /\ TLCSet(1, 0) /\ TLCSet(2, {})
TNext == /\ l <= N /\ Alive(fs, ss, es)
         /\ CheckLine
         /\ LET x == Rec[l]["in"] IN IF x[1] = "reset" THEN Reset ELSE Step(x)
         /\ l' = l + 1
         /\ sid' = Rec[l].stage
         /\ sync' = IF Rec[l]["in"][1] = "reset" THEN TRUE ELSE (sync /\ ~Desyncs)
TSpec == TInit /\ [][TNext]_tvars

ObsOK == (l > 1 /\ sync /\ Alive(fs, ss, es) /\ Rec[l - 1].ret[1] # "panic") =>
  ( ((EMods(es) = -1 \/ Rec[l - 1].obs[1] = EMods(es)) /\ Rec[l - 1].obs[2] = EMode(es))
    \/ Flag([prop |-> IF Mode = "wiring" THEN "C18" ELSE "C04", kind |-> "trace-obs", comp |-> Comp, line |-> l - 1,
             input |-> Rec[l - 1]["in"], observed |-> Rec[l - 1].obs, expected |-> <<EMods(es), EMode(es)>>]) )

Accepted ==
  /\ PrintT(<<"@@S", ToJson([lines |-> N, consumed |-> TLCGet("stats").diameter - 1, flagged |-> TLCGet(1), mode |-> Mode])>>)
  /\ TLCGet(1) = 0
  (* the trace stops being followed where a stage automaton was not explored (exploration cap) or
     has no successor (it panicked standalone): reported as "unbounded" = inconclusive, not a violation *)
  /\ ( TLCGet("stats").diameter = N + 1
       \/ (PrintT(<<"@@M", ToJson([prop |-> "C18", kind |-> "unbounded", comp |-> Comp,
                                   consumed |-> TLCGet("stats").diameter - 1, lines |-> N])>>) /\ FALSE) )
=============================================================================
