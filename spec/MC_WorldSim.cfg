SPECIFICATION SSpec
CONSTANT PhysKeys <- SimKeys
CONSTANT MaxWire = 3
CONSTANT LayoutName = "Uk105Key"
INVARIANT EmitBehaviour InSync SetIndependent NoErrors ModsTrackHeld PauseIsTransparent LocksCountPresses
CHECK_DEADLOCK FALSE
