SPECIFICATION SSpec
CONSTANT PKeys <- SimKeys
CONSTANT MaxSeqs = 100000
CONSTANT MaxFaults = 100000
CONSTANT AllowDrop = TRUE
CONSTANT PromptTimeout = TRUE
INVARIANT EmitBehaviour TypeOK InSyncNoFault NoErrorNoFault CtxHeals
CHECK_DEADLOCK FALSE
