---------------------------- MODULE Conf_Xlate ----------------------------
(***************************************************************************)
(* C13 after every history of key actions.  Props_Scan judges the          *)
(* translation property from the two decoders' initial states; here TLC    *)
(* explores the synchronous product of the two extracted automata under    *)
(* the same stream of key actions: a key action is a prefix context p, a   *)
(* Set 2 code c with a translation, and make or break; the Set 2 decoder   *)
(* is fed  p [F0] c, the Set 1 decoder  p Xlate(c)[+80h].  In every        *)
(* reachable product state and for every key action: if the Set 2 decoder  *)
(* reports a key event, the Set 1 decoder reports the identical event (and *)
(* conversely).  With decoders that are back in their initial condition    *)
(* after every sequence the product has one state; a decoder with state    *)
(* that survives a sequence (a lookup memo, a latch, a leaked release flag) *)
(* makes it grow, and the disagreement shows up after the history that     *)
(* needs it.                                                               *)
(***************************************************************************)
EXTENDS ScanProps, Report, IOUtils

G1 == ndJsonDeserialize(IOEnv.GRAPH1)
G2 == ndJsonDeserialize(IOEnv.GRAPH2)
O1(x, b) == G1[x].out[b + 1]      N1(x, b) == G1[x].post[b + 1]
O2(x, b) == G2[x].out[b + 1]      N2(x, b) == G2[x].post[b + 1]

RECURSIVE EndState(_, _, _)
EndState(Next(_, _), x, bs) == IF bs = <<>> \/ x = 0 THEN x ELSE EndState(Next, Next(x, bs[1]), Tail(bs))
RECURSIVE LastOutFrom(_, _, _, _)
LastOutFrom(Out(_, _), Next(_, _), x, bs) ==
  IF x = 0 THEN <<"panic">> ELSE IF Len(bs) = 1 THEN Out(x, bs[1]) ELSE LastOutFrom(Out, Next, Next(x, bs[1]), Tail(bs))

Actions == { <<p, c, f>> : p \in {"P", "E0", "E1"}, c \in XlateDomain, f \in {"make", "break"} }
Seq2(a) == PfxSeq(a[1]) \o (IF a[3] = "make" THEN <<a[2]>> ELSE <<240, a[2]>>)
Seq1(a) == PfxSeq(a[1]) \o <<Xlate(a[2]) + (IF a[3] = "make" THEN 0 ELSE 128)>>

VARIABLES x2, x1
vars == <<x2, x1>>
Init == x2 = 1 /\ x1 = 1
(* histories are made of key actions that at least one of the two decoders understands as a key  *)
(* (sequences neither set defines - e.g. the break of the undefined Set 2 code 0x47, whose         *)
(* translation collides with the E0 prefix byte - are not keys and are not part of a history)       *)
IsKeyAction(a) == LastOutFrom(O2, N2, x2, Seq2(a))[1] = "ev" \/ LastOutFrom(O1, N1, x1, Seq1(a))[1] = "ev"
Next == \E a \in Actions :
          /\ IsKeyAction(a)
          /\ x2' = EndState(N2, x2, Seq2(a)) /\ x1' = EndState(N1, x1, Seq1(a))
          /\ x2' # 0 /\ x1' # 0 /\ G2[x2'].expanded /\ G1[x1'].expanded
Spec == Init /\ [][Next]_vars

Agree ==
  ReportAllB({ a \in Actions :
                 LET o2 == LastOutFrom(O2, N2, x2, Seq2(a))
                     o1 == LastOutFrom(O1, N1, x1, Seq1(a))
                 IN  (o2[1] = "ev" \/ o1[1] = "ev") /\ o1 # o2
                     (* a Set 1 event whose Set 2 preimage is undefined is allowed when another preimage of the
                        same Set 1 code decodes to it (0x41 <- 0x02 / 0x83, 0x54 <- 0x7F / 0x84) *)
                     /\ ~(o2[1] = "err" /\ o1[1] = "ev" /\ \E c \in XlatePre(Xlate(a[2])) :
                             LastOutFrom(O2, N2, x2, Seq2(<<a[1], c, a[3]>>)) = o1) },
    LAMBDA a : [prop |-> "C13", kind |-> "xlate-history", prefix |-> a[1], code2 |-> a[2], form |-> a[3],
                code1 |-> Xlate(a[2]), access2 |-> G2[x2].access, access1 |-> G1[x1].access,
                o2 |-> LastOutFrom(O2, N2, x2, Seq2(a)), o1 |-> LastOutFrom(O1, N1, x1, Seq1(a))])
ASSUME Stats == Note("@@S", [g1_states |-> Len(G1), g2_states |-> Len(G2), key_actions |-> Cardinality(Actions)])
=============================================================================
