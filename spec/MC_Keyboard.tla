---------------------------- MODULE MC_Keyboard ----------------------------
(***************************************************************************)
(* Model-checking wrapper for the composite (C18 on the spec): the wiring  *)
(* of Keyboard.tla instantiated with the three stage specifications.  The  *)
(* frame stage (2047 states) and the scancode stage (6 / 3 contexts) are   *)
(* complete; the byte / word / event alphabets are small generating sets   *)
(* (prefix bytes, a modifier make code, an undefined code; the valid frame *)
(* of each plus one frame per error kind; modifier presses and releases).  *)
(* `act` records the call just made so that the isolation statements are   *)
(* cheap action properties; it and `kout` are observations hidden by VIEW. *)
(***************************************************************************)
EXTENDS KeyboardSpecStages, TLC

CONSTANTS ByteAlpha, WordAlpha, EventAlpha
VARIABLES fs, ss, es, kout, act
mcvars == <<fs, ss, es, kout, act>>

MCLayoutFn(l, k, m, h) == 1000000 + ((l * 124 + KeyIndex(k)) * 512 + m) * 2 + (IF h = "Map" THEN 0 ELSE 1)
MCLayoutIds == {0}

K == INSTANCE Keyboard WITH
       FInit <- SpFInit, FBitOut <- SpFBitOut, FBitNext <- SpFBitNext, FClear <- SpFClear, FWordOut <- SpFWordOut,
       SInit <- SpSInit, SOut <- SpSOut, SNext <- SpSNext,
       EInit <- SpEInit, EKeyOut <- SpEKeyOut, EKeyNext <- SpEKeyNext, EModeNext <- SpEModeNext

MCInit == K!KbInit /\ act = <<"init">>
MCNext == \/ \E b \in {0, 1} : K!KbAddBit(b) /\ act' = <<"bit", b>>
          \/ \E w \in WordAlpha : K!KbAddWord(w) /\ act' = <<"word", w>>
          \/ \E y \in ByteAlpha : K!KbAddByte(y) /\ act' = <<"byte", y>>
          \/ \E e \in EventAlpha : K!KbProcessKeyEvent(e[1], e[2]) /\ act' = <<"key", e[1], e[2]>>
          \/ K!KbClear /\ act' = <<"clear">>
          \/ \E h \in {"Map", "Ignore"} : K!KbSetCtrlHandling(h) /\ act' = <<"mode", h>>
MCSpec == MCInit /\ [][MCNext]_mcvars
View == <<fs, ss, es>>

TypeOK == /\ Len(fs) <= 10 /\ ss \in SpContexts
          /\ es[1] \in 0..511 /\ es[2] \in {"Map", "Ignore"} /\ es[3] \in MCLayoutIds
Op == act'[1]
FrameErrs == F!FrameErrors

(* a rejected frame is dropped: nothing but the bit framing changes *)
FrameErrorDropsByte == [][(kout' \in FrameErrs) => (ss' = ss /\ es' = es)]_mcvars
(* clear() resets only the bit framing *)
ClearOnlyFraming == [][(Op = "clear") => (fs' = <<>> /\ ss' = ss /\ es' = es)]_mcvars
(* no input path touches a stage it does not feed *)
ByteSkipsFraming == [][(Op = "byte") => (fs' = fs /\ es' = es)]_mcvars
AddWordLeavesRegister == [][(Op = "word") => (fs' = fs /\ es' = es)]_mcvars
BitsLeaveEventStage == [][(Op = "bit") => (es' = es)]_mcvars
EventTouchesOnlyEvent == [][(Op = "key" \/ Op = "mode") => (fs' = fs /\ ss' = ss)]_mcvars
(* only accepted bytes reach the scancode stage: its context moves only on add_byte, on the 11th
   bit of a frame that passes the check, or on an accepted word *)
OnlyAcceptedBytesReachScancode ==
  [][(ss' # ss) => \/ Op = "byte"
                   \/ (Op = "bit" /\ Len(fs) = 10 /\ F!CheckWord(F!WordOf(Append(fs, act'[2])))[1] = "byte")
                   \/ (Op = "word" /\ F!CheckWord(act'[2])[1] = "byte")]_mcvars
(* bits and words mean the same: feeding a word equals feeding the byte its frame carries *)
WordEqualsByte ==
  [][(Op = "word" /\ F!CheckWord(act'[2])[1] = "byte") =>
        (kout' = SpSOut(ss, F!CheckWord(act'[2])[2]) /\ ss' = SpSNext(ss, F!CheckWord(act'[2])[2]))]_mcvars
(* the Pause sequence E1 14 77 E1 F0 14 F0 77 leaves NumLock alone end to end is covered by World.tla *)

QBytes == {224, 225, 240, 20, 18, 119, 28, 0, 170, 2}
QWords == { F!Encode(y) : y \in QBytes } \cup { F!Encode(28) + 1, F!Encode(28) - 1024, F!Flip(F!Encode(28), 9) }
QEvents == { <<"LShift", "Down">>, <<"LShift", "Up">>, <<"RControl2", "Down">>, <<"RControl2", "Up">>,
             <<"NumpadLock", "Down">>, <<"A", "Down">> }
QEventsSmall == { <<"LShift", "Down">>, <<"LShift", "Up">> }
=============================================================================
