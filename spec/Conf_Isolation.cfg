
