---------------------------- MODULE Ps2Frame ----------------------------
(***************************************************************************)
(* The PS/2 frame stage (`Ps2Decoder`): an 11-bit frame check and the      *)
(* bit-serial shift register in front of it.                               *)
(*                                                                         *)
(* Frame format, as documented on `Keyboard::add_word`: bit 0 = start bit  *)
(* (must be 0), bits 1..8 = data, LSB first, bit 9 = parity (odd parity    *)
(* over data+parity), bit 10 = stop bit (must be 1).  Error priority:      *)
(* start, then stop, then parity.                                          *)
(*                                                                         *)
(* The abstract state is the sequence of bits received so far in the       *)
(* current frame - deliberately not the code's (register, num_bits) pair,  *)
(* so that the correspondence is something the conformance check shows.    *)
(***************************************************************************)
EXTENDS Integers, Sequences

None == <<"none">>
Err(e) == <<"err", e>>
ByteRes(n) == <<"byte", n>>

Bit(w, i) == (w \div (2^i)) % 2
Data(w) == (w \div 2) % 256
(* number of ones among data bits and parity bit (bits 1..9) *)
OnesDataParity(w) == Bit(w,1) + Bit(w,2) + Bit(w,3) + Bit(w,4) + Bit(w,5)
                   + Bit(w,6) + Bit(w,7) + Bit(w,8) + Bit(w,9)
StartOk(w) == Bit(w, 0) = 0
StopOk(w) == Bit(w, 10) = 1
ParityOk(w) == OnesDataParity(w) % 2 = 1

Frames == 0..2047

(* whole-word decoding: the meaning of one 11-bit frame *)
CheckWord(w) ==
  IF ~StartOk(w) THEN Err("BadStartBit")
  ELSE IF ~StopOk(w) THEN Err("BadStopBit")
  ELSE IF ~ParityOk(w) THEN Err("ParityError")
  ELSE ByteRes(Data(w))

FrameErrors == { Err("BadStartBit"), Err("BadStopBit"), Err("ParityError") }

(* the valid frame for a byte *)
OnesByte(b) == Bit(b,0) + Bit(b,1) + Bit(b,2) + Bit(b,3) + Bit(b,4) + Bit(b,5) + Bit(b,6) + Bit(b,7)
Encode(b) == 2 * b + (IF OnesByte(b) % 2 = 0 THEN 512 ELSE 0) + 1024
Flip(w, i) == IF Bit(w, i) = 1 THEN w - 2^i ELSE w + 2^i

(* value of a bit sequence received LSB first *)
RECURSIVE WordOf(_)
WordOf(bs) == IF bs = <<>> THEN 0 ELSE Head(bs) + 2 * WordOf(Tail(bs))

-----------------------------------------------------------------------------
(* The shift-register machine.  One action per public call.                *)

BitSeqs(n) == [1..n -> {0, 1}]

(* C06 is relational: the 11th bit returns what whole-word decoding of those 11 bits returns. *)
(* AddBitOutWith is parameterised by the whole-word decoder so that conformance can check   *)
(* the bit-serial path against the implementation's own add_word (C05 pins that one).       *)
AddBitOutWith(Check(_), bs, b) == IF Len(bs) = 10 THEN Check(WordOf(Append(bs, b))) ELSE None
AddBitOut(bs, b) == AddBitOutWith(CheckWord, bs, b)
AddBitNext(bs, b) == IF Len(bs) = 10 THEN <<>> ELSE Append(bs, b)

VARIABLES bits, fout
fvars == <<bits, fout>>

FrameInit == bits = <<>> /\ fout = None
AddBit(b) == fout' = AddBitOut(bits, b) /\ bits' = AddBitNext(bits, b)
Clear == bits' = <<>> /\ fout' = None
(* add_word takes &self: it cannot change the register.  Words with bits   *)
(* above bit 10 set are outside the documented precondition.               *)
AddWord(w) == fout' = CheckWord(w) /\ UNCHANGED bits

FrameNext == (\E b \in {0, 1} : AddBit(b)) \/ Clear \/ (\E w \in Frames : AddWord(w))
FrameSpec == FrameInit /\ [][FrameNext]_fvars

FrameTypeOK == /\ Len(bits) <= 10 /\ \A i \in 1..Len(bits) : bits[i] \in {0, 1}

-----------------------------------------------------------------------------
(* C05 as theorems over all 2048 frames (checked by TLC as ASSUMEs in MC_Frame) *)

AcceptIff == \A w \in Frames :
   (CheckWord(w)[1] = "byte") <=> (StartOk(w) /\ StopOk(w) /\ ParityOk(w))
YieldsData == \A w \in Frames : CheckWord(w)[1] = "byte" => CheckWord(w)[2] = Data(w)
ErrorPriority == \A w \in Frames :
   /\ ~StartOk(w) => CheckWord(w) = Err("BadStartBit")
   /\ (StartOk(w) /\ ~StopOk(w)) => CheckWord(w) = Err("BadStopBit")
   /\ (StartOk(w) /\ StopOk(w) /\ ~ParityOk(w)) => CheckWord(w) = Err("ParityError")
RoundTrip == \A b \in 0..255 : Encode(b) \in Frames /\ CheckWord(Encode(b)) = ByteRes(b)
SingleFlipRejected == \A b \in 0..255 : \A i \in 0..10 :
   CheckWord(Flip(Encode(b), i))[1] = "err"
(* double flips: accepted iff both flipped bits lie in data+parity (parity preserved) *)
DoubleFlipFollowsRule == \A b \in 0..255 : \A i \in 0..10 : \A j \in (i+1)..10 :
   LET w == Flip(Flip(Encode(b), i), j)
   IN  (CheckWord(w)[1] = "byte") <=> (i \in 1..9 /\ j \in 1..9)
=============================================================================
