---------------------------- MODULE Set1Decoder ----------------------------
(***************************************************************************)
(* Scancode Set 1 decoder (`ScancodeSet1::advance_state`): optional E0 or  *)
(* E1, then one byte whose low 7 bits are the code and whose top bit means *)
(* release.  After every event and every error the context is Start.       *)
(***************************************************************************)
EXTENDS Integers, Sequences, FiniteSets, Scancodes

E0 == 224   E1 == 225
Bytes == 0..255

None == <<"none">>
Ev(k, s) == <<"ev", k, s>>
ErrUnknown == <<"err", "UnknownKeyCode">>

Ctx1 == {"Start", "E0", "E1"}

Lookup(tbl, b, st) == IF b \in DOMAIN tbl THEN Ev(tbl[b], st) ELSE ErrUnknown
Code7(b) == b % 128
UpDown(b) == IF b >= 128 THEN "Up" ELSE "Down"

Set1Out(c, b) ==
  CASE c = "Start" -> IF b \in {E0, E1} THEN None ELSE Lookup(Ref1Plain, Code7(b), UpDown(b))
    [] c = "E0" -> Lookup(Ref1E0, Code7(b), UpDown(b))
    [] c = "E1" -> Lookup(Ref1E1, Code7(b), UpDown(b))

Set1Next(c, b) ==
  IF c = "Start" THEN (IF b = E0 THEN "E0" ELSE IF b = E1 THEN "E1" ELSE "Start") ELSE "Start"

VARIABLES ctx, sout
svars == <<ctx, sout>>

Set1Init == ctx = "Start" /\ sout = None
Byte1(b) == sout' = Set1Out(ctx, b) /\ ctx' = Set1Next(ctx, b)
Set1NextAct == \E b \in Bytes : Byte1(b)
Set1Spec == Set1Init /\ [][Set1NextAct]_svars

Set1TypeOK == ctx \in Ctx1
Resync1 == [][sout' # None => ctx' = "Start"]_svars
=============================================================================
