SPECIFICATION MCSpec
INVARIANT TypeOK Refines ShiftInRange
PROPERTY Incomplete SerialEqualsWord FramesIndependent
VIEW View
CHECK_DEADLOCK FALSE
CONSTANT WordAlphabet <- AllWords
