---------------------------- MODULE Report ----------------------------
(***************************************************************************)
(* Reporting helpers for conformance modules.  A violated check prints one *)
(* machine-readable record per violating case (all of them, not only the   *)
(* first) and evaluates to FALSE, so TLC itself reports the violation.     *)
(*                                                                         *)
(* The budgeted variants (BadB, ReportAllB) are for state invariants run    *)
(* with -continue: TLC prints the whole behaviour for every violating      *)
(* state, so a change that breaks a property in tens of thousands of       *)
(* product states would drown the run in output.  Each worker reports at   *)
(* most Budget violating states PER PROPERTY (so one property's cases can  *)
(* never crowd out another's) and lets further ones pass silently - the    *)
(* property is already decided as violated by then.                        *)
(***************************************************************************)
EXTENDS TLC, Json, FiniteSets, Naturals
Emit(rec) == PrintT(<<"@@M", ToJson(rec)>>)
Bad(rec) == Emit(rec) /\ FALSE
Note(tag, rec) == PrintT(<<tag, ToJson(rec)>>)
(* S = set of violating cases, Rec(x) = the record describing case x *)
ReportAll(S, Rec(_)) == S = {} \/ ((\A x \in S : Emit(Rec(x))) /\ FALSE)

Budget == 40
PropReg == [ C01 |-> 11, C02 |-> 12, C03 |-> 13, C04 |-> 14, C05 |-> 15, C06 |-> 16, C07 |-> 17, C08 |-> 18,
             C09 |-> 19, C10 |-> 20, C11 |-> 21, C12 |-> 22, C13 |-> 23, C14 |-> 24, C15 |-> 25, C16 |-> 26,
             C17 |-> 27, C18 |-> 28, C19 |-> 29, C20 |-> 30 ]
ASSUME BudgetInit == \A p \in DOMAIN PropReg : TLCSet(PropReg[p], 0)      \* copied to every worker
Spent(prop) == TLCGet(PropReg[prop]) >= Budget
Charge(prop) == TLCSet(PropReg[prop], TLCGet(PropReg[prop]) + 1)
BadB(rec) == IF Spent(rec.prop) THEN TRUE ELSE (Charge(rec.prop) /\ Emit(rec) /\ FALSE)
ReportAllB(S, Rec(_)) ==
  IF S = {} THEN TRUE
  ELSE LET p == Rec(CHOOSE x \in S : TRUE).prop IN
       IF Spent(p) THEN TRUE ELSE (Charge(p) /\ (\A x \in S : Emit(Rec(x))) /\ FALSE)
=============================================================================
