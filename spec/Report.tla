---------------------------- MODULE Report ----------------------------
(***************************************************************************)
(* Reporting helpers for conformance modules.  A violated check prints one *)
(* machine-readable record per violating case (all of them, not only the   *)
(* first) and evaluates to FALSE, so TLC itself reports the violation.     *)
(***************************************************************************)
EXTENDS TLC, Json, FiniteSets
Emit(rec) == PrintT(<<"@@M", ToJson(rec)>>)
Bad(rec) == Emit(rec) /\ FALSE
Note(tag, rec) == PrintT(<<tag, ToJson(rec)>>)
(* S = set of violating cases, Rec(x) = the record describing case x *)
ReportAll(S, Rec(_)) == S = {} \/ ((\A x \in S : Emit(Rec(x))) /\ FALSE)
=============================================================================
