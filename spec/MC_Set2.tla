---------------------------- MODULE MC_Set2 ----------------------------
(* Model-checking wrapper for the Set 2 decoder: C01, C07, C19 (spec side). *)
EXTENDS Set2Decoder, TLC

VARIABLE nrun          \* number of consecutive "none" results so far
mcvars == <<ctx, sout, nrun>>

MCInit == Set2Init /\ nrun = 0
MCNext == \E b \in Bytes : Byte2(b) /\ nrun' = IF Set2Out(ctx, b) = None THEN nrun + 1 ELSE 0
MCSpec == MCInit /\ [][MCNext]_mcvars

TypeOK == Set2TypeOK /\ nrun \in 0..2
(* C07: 'no event yet' never more than twice in a row; an event or error resets *)
NoneRunBounded == nrun <= 2
Resync == [][sout' # None => ctx' = "Start"]_mcvars
(* a prefix influences at most the next two bytes: after two bytes from any state we are in a
   state that was reachable without the prefix... stated directly: ctx depth *)
PrefixDepth == (ctx \in {"E0", "E1", "F0"} => nrun = 1) /\ (ctx \in {"E0F0", "E1F0"} => nrun = 2)
               /\ (ctx = "Start" => nrun = 0)

-----------------------------------------------------------------------------
(* C01 as theorems about the transition function *)
PrefixBytes == {E0, E1, F0}

(* run a byte sequence from a context; result = <<final ctx, sequence of outputs>> *)
RECURSIVE Run2(_, _)
Run2(c, bs) == IF bs = <<>> THEN <<c, <<>>>>
               ELSE LET r == Run2(Set2Next(c, Head(bs)), Tail(bs))
                    IN  <<r[1], <<Set2Out(c, Head(bs))>> \o r[2]>>

PrefixSeq(p) == IF p = "P" THEN <<>> ELSE IF p = "E0" THEN <<E0>> ELSE <<E1>>

(* every row of the reference table: make and break sequences decode to that key *)
SequenceMeaning ==
  \A r \in KeyTable : r[4] # "-" =>
     LET mk == Run2("Start", PrefixSeq(r[4]) \o <<r[5]>>)
         bk == Run2("Start", PrefixSeq(r[4]) \o <<F0, r[5]>>)
         np == Len(PrefixSeq(r[4]))
     IN  /\ mk[1] = "Start" /\ bk[1] = "Start"
         /\ \A i \in 1..np : mk[2][i] = None
         /\ \A i \in 1..(np+1) : bk[2][i] = None
         /\ mk[2][np+1] = Ev(r[1], IF r[1] \in StatusKeys THEN "SingleShot" ELSE "Down")
         /\ bk[2][np+2] = Ev(r[1], "Up")

PrefixSilent == \A c \in Ctx2, b \in Bytes :
   (Set2Next(c, b) # "Start") => (Set2Out(c, b) = None /\ b \in PrefixBytes)
StatusOneShot == Set2Out("Start", 0) = Ev("TooManyKeys", "SingleShot")
              /\ Set2Out("Start", 170) = Ev("PowerOnTestOk", "SingleShot")
(* every code the table does not define (in that prefix context) is an error, and every
   non-error output names the table's key for exactly that code *)
TableOf(c) == IF c \in {"Start", "F0"} THEN Ref2Plain ELSE IF c \in {"E0", "E0F0"} THEN Ref2E0 ELSE Ref2E1
UndefinedIsError == \A c \in Ctx2, b \in Bytes :
   LET o == Set2Out(c, b) IN
   /\ (o = None) <=> (Set2Next(c, b) # "Start")
   /\ (o # None /\ b \notin DOMAIN TableOf(c)) => o = ErrUnknown
   /\ (o # None /\ b \in DOMAIN TableOf(c)) => (o[1] = "ev" /\ o[2] = TableOf(c)[b])

(* C19 on the reference: sequences are one-to-one and make <=> break *)
Seqs2 == { <<p, c>> : p \in Prefixes, c \in Bytes }
MakeOf(pc) == Run2("Start", PrefixSeq(pc[1]) \o <<pc[2]>>)[2][Len(PrefixSeq(pc[1])) + 1]
BreakOf(pc) == Run2("Start", PrefixSeq(pc[1]) \o <<F0, pc[2]>>)[2][Len(PrefixSeq(pc[1])) + 2]
Injective == \A x, y \in Seqs2 :
   (MakeOf(x)[1] = "ev" /\ MakeOf(y)[1] = "ev" /\ MakeOf(x)[2] = MakeOf(y)[2]) => x = y
MakeIffBreak == \A x \in Seqs2 : x[2] \notin PrefixBytes =>
   /\ (MakeOf(x)[1] = "ev" /\ MakeOf(x)[3] = "Down") => BreakOf(x) = Ev(MakeOf(x)[2], "Up")
   /\ (BreakOf(x)[1] = "ev") => (MakeOf(x)[1] = "ev" /\ MakeOf(x)[2] = BreakOf(x)[2])

(* negative control (selftest): a decoder that stays in the extended-release context after an
   undefined code must violate Resync (MC_Set2_neg.cfg overrides Set2Next with this) *)
BrokenSet2Next(c, b) == IF c = "E0F0" /\ b \notin DOMAIN Ref2E0 THEN "E0F0" ELSE
  CASE c = "Start" -> IF b = E0 THEN "E0" ELSE IF b = E1 THEN "E1" ELSE IF b = F0 THEN "F0" ELSE "Start"
    [] c = "E0" -> IF b = F0 THEN "E0F0" ELSE "Start"
    [] c = "E1" -> IF b = F0 THEN "E1F0" ELSE "Start"
    [] OTHER -> "Start"

ASSUME C01_SequenceMeaning == SequenceMeaning
ASSUME C01_PrefixSilent == PrefixSilent
ASSUME C01_StatusOneShot == StatusOneShot
ASSUME C01_UndefinedIsError == UndefinedIsError
ASSUME C19_Injective == Injective
ASSUME C19_MakeIffBreak == MakeIffBreak
=============================================================================
