
