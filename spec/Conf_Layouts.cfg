SPECIFICATION Spec
INVARIANT AllProps
CHECK_DEADLOCK FALSE
