SPECIFICATION Spec
INVARIANT C08 C03 C09a C09b C09c C10 C11 C12 C15 C16 C17 C17Distinct
CHECK_DEADLOCK FALSE
