---------------------------- MODULE Xlate8042 ----------------------------
(***************************************************************************)
(* The i8042 keyboard controller's standard Set 2 -> Set 1 translation     *)
(* (the table in IBM's AT technical reference, reproduced e.g. in          *)
(* A. Brouwer, "Keyboard scancodes", section 10.3): 128 entries for codes  *)
(* 0x00..0x7F, plus the two special cases 0x83 -> 0x41 and 0x84 -> 0x54.   *)
(* Prefix bytes E0/E1 pass through unchanged; F0 is swallowed and sets     *)
(* bit 7 of the next translated code.                                      *)
(* Written from the standard, independently of Scancodes.tla.              *)
(***************************************************************************)
EXTENDS Integers, Sequences, FiniteSets, Scancodes

XlateTable == <<
  \hFF, \h43, \h41, \h3F, \h3D, \h3B, \h3C, \h58, \h64, \h44, \h42, \h40, \h3E, \h0F, \h29, \h59,
  \h65, \h38, \h2A, \h70, \h1D, \h10, \h02, \h5A, \h66, \h71, \h2C, \h1F, \h1E, \h11, \h03, \h5B,
  \h67, \h2E, \h2D, \h20, \h12, \h05, \h04, \h5C, \h68, \h39, \h2F, \h21, \h14, \h13, \h06, \h5D,
  \h69, \h31, \h30, \h23, \h22, \h15, \h07, \h5E, \h6A, \h72, \h32, \h24, \h16, \h08, \h09, \h5F,
  \h6B, \h33, \h25, \h17, \h18, \h0B, \h0A, \h60, \h6C, \h34, \h35, \h26, \h27, \h19, \h0C, \h61,
  \h6D, \h73, \h28, \h74, \h1A, \h0D, \h62, \h6E, \h3A, \h36, \h1C, \h1B, \h75, \h2B, \h63, \h76,
  \h55, \h56, \h77, \h78, \h79, \h7A, \h0E, \h7B, \h7C, \h4F, \h7D, \h4B, \h47, \h7E, \h7F, \h6F,
  \h52, \h53, \h50, \h4C, \h4D, \h48, \h01, \h45, \h57, \h4E, \h51, \h4A, \h37, \h49, \h46, \h54 >>

(* Set 2 codes that have a translation to a 7-bit Set 1 make code *)
XlateDomain == (1..127) \cup {131, 132}
Xlate(c) == IF c = 131 THEN 65 ELSE IF c = 132 THEN 84 ELSE XlateTable[c + 1]
(* preimages of a Set 1 make code *)
XlatePre(c1) == { c \in XlateDomain : Xlate(c) = c1 }

ASSUME XlateWellFormed ==
  /\ Len(XlateTable) = 128
  /\ \A c \in XlateDomain : Xlate(c) \in 1..127
  /\ \A c, d \in 1..127 : Xlate(c) = Xlate(d) => c = d      \* a bijection on 0x01..0x7F
  /\ { Xlate(c) : c \in 1..127 } = 1..127

(* The reference key table and the translation table say the same thing:  *)
(* every key with a code in both sets has the same prefix in both and its *)
(* Set 1 code is the translation of its Set 2 code.                       *)
ASSUME TableAgreesWithXlate ==
  \A r \in KeyTable :
     (r[2] # "-" /\ r[4] # "-") => /\ r[2] = r[4]
                                   /\ r[5] \in XlateDomain
                                   /\ Xlate(r[5]) = r[3]
=============================================================================
