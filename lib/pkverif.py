"""Orchestration for the pc-keyboard TLA+ verification machinery (stdlib only).

The Rust harness (`pkv`) observes the real code; TLC judges; this module only wires them:
build -> extract (cached per tree hash) -> TLC jobs (cached per tree hash) -> collect
mismatch records printed by TLC -> known-findings filter -> evidence + verdict lines.
"""
import fcntl, hashlib, json, os, re, shutil, subprocess, sys, time

VERIF = os.path.dirname(os.path.dirname(os.path.abspath(__file__)))
REPO = os.environ.get("PKV_REPO", "/repo")
SPEC = os.path.join(VERIF, "spec")
# scratch overrides (used by tools/run_seeded.py to judge a mutated copy of the repository without
# touching /repo, the registered evidence or the main cache); registered checks never set them
HARNESS = os.environ.get("PKV_HARNESS", os.path.join(VERIF, "harness"))
WORK = os.environ.get("PKV_WORK", os.path.join(VERIF, "work"))
PKV = os.path.join(HARNESS, "target", "release", "pkv")
EVID = os.environ.get("PKV_EVID", os.path.join(VERIF, "evidence"))
REPLAYS = os.environ.get("PKV_REPLAYS", os.path.join(VERIF, "replays"))
KNOWN = os.path.join(VERIF, "KNOWN_FINDINGS.txt")
TLA_JAR = "/opt/veriftools/tla/tla2tools.jar:/opt/veriftools/tla/CommunityModules-deps.jar"


class ToolError(Exception):
    pass


def log(*a):
    print(*a, file=sys.stderr, flush=True)


# --------------------------------------------------------------------------- hashing / cache
def _files(root, exts=None):
    out = []
    for d, dirs, fs in os.walk(root):
        dirs[:] = sorted(x for x in dirs if x not in ("target", ".git", "work"))
        for f in sorted(fs):
            if exts is None or os.path.splitext(f)[1] in exts:
                out.append(os.path.join(d, f))
    return out


def spec_hash():
    h = hashlib.sha256()
    for f in _files(SPEC, {".tla", ".cfg"}) + [os.path.abspath(__file__)]:
        h.update(f.encode())
        with open(f, "rb") as fh:
            h.update(fh.read())
    return h.hexdigest()[:20]


def tree_hash():
    h = hashlib.sha256()
    fl = (_files(os.path.join(REPO, "src")) + [os.path.join(REPO, "Cargo.toml")]
          + _files(os.path.join(HARNESS, "src")) + [os.path.join(HARNESS, "Cargo.toml")]
          + _files(SPEC, {".tla", ".cfg"}) + [os.path.abspath(__file__)])
    for f in fl:
        h.update(f.encode())
        try:
            with open(f, "rb") as fh:
                h.update(fh.read())
        except OSError:
            pass
    return h.hexdigest()[:20]


class Ctx:
    def __init__(self, tier, seed):
        self.tier = tier
        self.seed = seed
        os.makedirs(WORK, exist_ok=True)
        self.lockf = open(os.path.join(WORK, "lock"), "w")
        fcntl.flock(self.lockf, fcntl.LOCK_EX)
        self.build()
        self.hash = tree_hash()
        self.cache = os.path.join(WORK, "cache", self.hash)
        os.makedirs(os.path.join(self.cache, "art"), exist_ok=True)
        os.makedirs(os.path.join(self.cache, "jobs"), exist_ok=True)
        self.gc()

    def gc(self):
        root = os.path.join(WORK, "cache")
        ds = sorted((os.path.getmtime(os.path.join(root, d)), d) for d in os.listdir(root))
        ds = [x for x in ds if not x[1].startswith("spec-") or x[1] != "spec-" + spec_hash()]
        for _, d in ds[:-3]:
            if d != self.hash:
                shutil.rmtree(os.path.join(root, d), ignore_errors=True)

    def build(self):
        t = time.time()
        env = dict(os.environ, CARGO_NET_OFFLINE="true")
        p = subprocess.run(["cargo", "build", "--release", "--offline"], cwd=HARNESS, env=env,
                           stdout=subprocess.PIPE, stderr=subprocess.STDOUT, text=True)
        if p.returncode != 0:
            log(p.stdout[-4000:])
            raise ToolError("harness build against %s failed" % REPO)
        self.build_s = time.time() - t

    # ------------------------------------------------------------------ artefacts
    def art(self, name):
        """extracted artefact path, produced on demand by the harness"""
        spec = ARTEFACTS[name]
        seeded = any("{seed}" in a for a in spec)
        path = os.path.join(self.cache, "art", name + (".s%d" % self.seed if seeded else "") + ".ndjson")
        if os.path.exists(path + ".ok"):
            return path
        args = [a.replace("{out}", path).replace("{alpha}", path + ".alpha.json").replace("{seed}", str(self.seed))
                for a in spec]
        if any("{export}" in a for a in args):
            ed = export_dir(self)
            args = [a.replace("{export}", ed) for a in args]
        t = time.time()
        p = subprocess.run([PKV] + args, stdout=subprocess.PIPE, stderr=subprocess.PIPE, text=True,
                           timeout=1800)
        if p.returncode != 0:
            raise ToolError("pkv %s failed (%d): %s" % (" ".join(args), p.returncode, p.stderr[-2000:]))
        with open(path + ".ok", "w") as f:
            f.write("%.2f" % (time.time() - t))
        return path

    def alpha(self, name):
        self.art(name)
        with open(os.path.join(self.cache, "art", name + ".ndjson.alpha.json")) as f:
            return json.load(f)

    # ------------------------------------------------------------------ jobs
    def job(self, name):
        seeded = any(str(v).startswith("art:tr_") for v in JOBS[name].get("env", {}).values()) \
            or JOBS[name].get("kind") in ("world", "link")        # -simulate behaviours depend on the seed
        if not JOBS[name].get("env") or JOBS[name].get("spec_only"):
            # a job that reads nothing extracted from the code depends on the specification only
            d = os.path.join(WORK, "cache", "spec-" + spec_hash())
            os.makedirs(d, exist_ok=True)
            path = os.path.join(d, name + ".json")
        else:
            path = os.path.join(self.cache, "jobs", name + (".s%d" % self.seed if seeded else "") + ".json")
        if os.path.exists(path):
            with open(path) as f:
                r = json.load(f)
            r["from_cache"] = True
            return r
        spec = JOBS[name]
        res = run_tlc(self, name, spec) if spec["kind"] == "tlc" else run_pkv_job(self, name, spec)
        with open(path, "w") as f:
            json.dump(res, f)
        return res


# --------------------------------------------------------------------------- TLC
def parse_tlc(out):
    recs, notes = [], []
    for line in out.splitlines():
        m = re.match(r'^<<"(@@[A-Z])", (".*")>>\s*$', line)
        if m:
            try:
                payload = json.loads(json.loads(m.group(2)))
            except Exception:
                continue
            (recs if m.group(1) == "@@M" else notes).append(payload)
    st = {}
    m = re.findall(r"(\d[\d,]*) states generated, (\d[\d,]*) distinct states found", out)
    if m:
        st["generated"] = int(m[-1][0].replace(",", ""))
        st["distinct"] = int(m[-1][1].replace(",", ""))
    m = re.search(r"depth of the complete state graph search is (\d+)", out)
    if m:
        st["depth"] = int(m.group(1))
    return recs, notes, st


def run_tlc(ctx, name, spec, env_override=None, allow_spec_violation=False):
    env = dict(os.environ)
    for k, v in spec.get("env", {}).items():
        if v == "model:table":
            env[k] = model_table(ctx)
        elif v.startswith("art:"):
            env[k] = ctx.art(v[4:])
        elif v.startswith("alpha:"):
            env[k] = ctx.art(v[6:]) + ".alpha.json"
        else:
            env[k] = v
    env.update(env_override or {})
    meta = os.path.join(WORK, "tlc", name)
    shutil.rmtree(meta, ignore_errors=True)
    os.makedirs(meta, exist_ok=True)
    cmd = ["java", "-XX:+UseParallelGC", "-Xmx%s" % spec.get("heap", "4g"), "-Xss1g"] + spec.get("jvm", []) + [
           "-cp", TLA_JAR, "tlc2.TLC", "-workers", str(spec.get("workers", 4)),
           "-metadir", meta, "-cleanup", "-noGenerateSpecTE", "-nowarning"]
    if spec.get("cont", True):
        cmd.append("-continue")
    if name.startswith("mc_") and spec.get("coverage", True):
        cmd += ["-coverage", "1"]        # per-action counts: an action never taken would be vacuity
    cmd += spec.get("args", [])
    cmd += ["-config", os.path.join(SPEC, spec["cfg"]), os.path.join(SPEC, spec["module"] + ".tla")]
    t = time.time()
    try:
        p = subprocess.run(cmd, cwd=meta, env=env, stdout=subprocess.PIPE, stderr=subprocess.STDOUT,
                           text=True, timeout=spec.get("timeout", 900))
    except subprocess.TimeoutExpired:
        raise ToolError("TLC job %s timed out" % name)
    finally:
        shutil.rmtree(os.path.join(meta, "states"), ignore_errors=True)
    wall = time.time() - t
    out = p.stdout
    recs, notes, st = parse_tlc(out)
    cov = {}
    for m in re.finditer(r"^<(\w+) line (\d+), col \d+ to line \d+, col \d+ of module (\w+)(?: \(([\d ]+)\))?>: (\d+):(\d+)\s*$", out, re.M):
        cov["%s@%s:%s%s" % (m.group(1), m.group(3), m.group(2), (" (" + m.group(4) + ")") if m.group(4) else "")] = \
            {"distinct": int(m.group(5)), "generated": int(m.group(6))}
    if cov:
        untaken = sorted(a for a, v in cov.items() if v["generated"] == 0)
        notes.append({"action_coverage": cov, "actions_never_taken": untaken})
        if untaken:
            log("WARNING: TLC job %s: actions never taken: %s" % (name, untaken))
    with open(os.path.join(meta, "out.txt"), "w") as f:
        f.write(out)
    if spec.get("expect_violation_re"):
        if p.returncode != 0 and re.search(spec["expect_violation_re"], out):
            return {"job": name, "verdict": "ok", "exit": p.returncode, "records": [], "stats": st,
                    "notes": [{"expected_violation_found": spec["expect_violation_re"]}], "wall_s": round(wall, 2),
                    "module": spec["module"]}
        raise ToolError("TLC job %s: expected a violation matching %s, found none" % (name, spec["expect_violation_re"]))
    if spec.get("expect_violation"):
        # a configuration that documents a hazard: TLC must find the named invariant violated
        if ("Invariant %s is violated" % spec["expect_violation"]) in out:
            return {"job": name, "verdict": "ok", "exit": p.returncode, "records": [], "stats": st,
                    "notes": [{"expected_violation_found": spec["expect_violation"]}], "wall_s": round(wall, 2),
                    "module": spec["module"]}
        raise ToolError("TLC job %s: expected a violation of %s, found none" % (name, spec["expect_violation"]))
    completed = ("Model checking completed" in out) or ("Finished in" in out and p.returncode in (0, 10, 12, 13))
    verdict = "ok"
    if recs:
        verdict = "mismatch"
    elif p.returncode != 0:
        # TLC says a property of the specification itself fails, or TLC crashed
        if re.search(r"Invariant .* is violated|is false|Action property .* is violated|violated", out):
            verdict = "spec-violation"
        else:
            verdict = "error"
    if verdict in ("error", "spec-violation") or not completed:
        tail = "\n".join(l for l in out.splitlines() if not re.match(r"^(Semantic|Linting|Parsing)", l))[-3000:]
        raise ToolError("TLC job %s: %s (exit %d)\n%s" % (name, verdict, p.returncode, tail))
    # an automaton obtained by behavioural merging that does not predict the real object on the
    # harness's validation walks is not a faithful model: whatever was found on it is inconclusive
    unfaithful = []
    for k, v in spec.get("env", {}).items():
        if isinstance(v, str) and v.startswith("art:g_"):
            try:
                with open(ctx.art(v[4:])) as f:
                    first = json.loads(f.readline())
                # States identified by behavioural merging (the rendering did not close within the cap): the
                # merged automaton can splice together runs that no single real run performs, so a difference
                # found on it is not evidence of a violation. It keeps the job running; its findings are
                # inconclusive. (The table replays and the trace validation do not depend on state identity.)
                if first.get("idmode") == "behaviour" or first.get("faithful") is False:
                    unfaithful.append(v[4:])
            except Exception:
                pass
    if unfaithful:
        for r in recs:
            r["was_kind"] = r.get("kind")
            r["kind"] = "unbounded"
            r["unfaithful_graphs"] = unfaithful
    return {"job": name, "verdict": verdict, "exit": p.returncode, "records": recs, "notes": notes,
            "stats": st, "wall_s": round(wall, 2), "module": spec["module"], "unfaithful_graphs": unfaithful}


def model_table(ctx):
    """the deterministic layout model, exported by TLC in the harness's table format (spec only)"""
    d = os.path.join(WORK, "cache", "spec-" + spec_hash())
    os.makedirs(d, exist_ok=True)
    out = os.path.join(d, "model_table.ndjson")
    if not os.path.exists(out + ".ok"):
        run_tlc(ctx, "export_model", dict(kind="tlc", module="Export_Model", cfg="Export_Model.cfg", workers=1,
                                          cont=False, heap="6g"), env_override={"OUT": out})
        open(out + ".ok", "w").write("ok")
    return out


def model_drift(ctx):
    """informational: cells where the deterministic model and the real layouts differ (only possible
    where no property pins the cell; every pinned cell is judged by Conf_Layouts)"""
    mt, it = model_table(ctx), ctx.art("t_layouts")
    drift = {}
    with open(mt) as fm, open(it) as fi:
        for lm, li in zip(fm, fi):
            a, b = json.loads(lm), json.loads(li)
            n = sum(1 for x, y in zip(a["o"], b["o"]) if x != y)
            if n:
                drift.setdefault(a["layout"], {})[a["k"] + "/" + a["h"]] = n
    return {l: {"rows": len(v), "cells": sum(v.values())} for l, v in drift.items()}


def readme_report():
    """informational: the README conversion table against the specification's reference table
    (the two known misprints, and anything new should the README be edited)"""
    try:
        spec_rows = {}
        for m in re.finditer(r'<<"(\w+)", "([\w-]+)", (-1|\\h[0-9A-F]{2}), "([\w-]+)", (-1|\\h[0-9A-F]{2})>>',
                             open(os.path.join(SPEC, "Scancodes.tla")).read()):
            conv = lambda p, c: None if c == "-1" else (({"P": 0, "E0": 0xE000, "E1": 0xE100}[p]) | int(c[2:], 16))
            spec_rows[m.group(1)] = (conv(m.group(2), m.group(3)), conv(m.group(4), m.group(5)))
        diffs = []
        for l in open(os.path.join(REPO, "README.md")):
            m = re.match(r"\|\s*(\w+)\s*\|\s*(\S+)\s*\|\s*(\S+)\s*\|", l)
            if m and m.group(1) in spec_rows:
                rd = tuple(None if x == "--" else int(x, 16) for x in (m.group(2), m.group(3)))
                if rd != spec_rows[m.group(1)]:
                    diffs.append({"key": m.group(1), "readme": ["%s" % m.group(2), "%s" % m.group(3)],
                                  "reference": [None if v is None else hex(v) for v in spec_rows[m.group(1)]]})
        return {"rows_compared": len(spec_rows), "differences": diffs,
                "note": "NumpadEnter (Set 2) and Apps (Set 1) are README misprints: each collides with another row"}
    except Exception as e:
        return {"error": str(e)}


def export_dir(ctx):
    """tables exported from the specification by TLC (depends on the spec only)"""
    d = os.path.join(WORK, "cache", "spec-" + spec_hash(), "export")
    if os.path.exists(os.path.join(d, ".ok")):
        return d
    os.makedirs(d, exist_ok=True)
    run_tlc(ctx, "export_tables", dict(kind="tlc", module="Export_Tables", cfg="Export_Tables.cfg", workers=1,
                                       cont=False, heap="6g"), env_override={"OUTDIR": d})
    open(os.path.join(d, ".ok"), "w").write("ok")
    return d


REPLAY_PROP = {"set2": ("C01", []), "set1": ("C02", []), "frame": ("C06", []), "words": ("C05", []),
               "event": ("C14", ["C04"])}


def graph_as_table(ctx, gname):
    """the automaton extracted from the real object, in the table format of the generic walker"""
    path = ctx.art(gname)
    out = path + ".table.json"
    if not os.path.exists(out):
        recs = [json.loads(l) for l in open(path)]
        alpha = ctx.alpha(gname)
        n = len(recs)
        tab = {"name": gname, "init": 1, "alphabet": alpha, "states": [r["i"] for r in recs],
               # a panicking transition has no successor: point it at the state itself (the walker stops
               # at the first mismatch and a panic is compared like any other result)
               "next": [[(x if x else r["i"]) for x in r["post"]] if r["expanded"] else [r["i"]] * len(alpha) for r in recs],
               "out": [r["out"] if r["expanded"] else [["unexplored"]] * len(alpha) for r in recs]}
        json.dump(tab, open(out, "w"))
    return out


def run_world(ctx, name, spec):
    """end-to-end: behaviours of World.tla generated by TLC (-simulate, seeded) and replayed into two
    real Keyboards (Set 2 raw / Set 1 after the i8042 translation) with a real layout"""
    d = os.path.join(ctx.cache, "world")
    os.makedirs(d, exist_ok=True)
    recs, notes, total_steps, nbeh, wall = [], [], 0, 0, time.time()
    for layout in spec["layouts"]:
        cfg = os.path.join(d, "MC_WorldSim_%s.cfg" % layout)
        base = open(os.path.join(SPEC, "MC_WorldSim.cfg")).read().replace('"Uk105Key"', '"%s"' % layout)
        open(cfg, "w").write(base)
        meta = os.path.join(WORK, "tlc", name + "_" + layout)
        shutil.rmtree(meta, ignore_errors=True)
        os.makedirs(meta, exist_ok=True)
        cmd = ["java", "-XX:+UseParallelGC", "-Xmx4g", "-Xss1g", "-cp", TLA_JAR, "tlc2.TLC", "-workers", "1",
               "-simulate", "num=%d" % spec["num"], "-depth", "120", "-seed", str(ctx.seed),
               "-metadir", meta, "-cleanup", "-noGenerateSpecTE", "-nowarning", "-config", cfg,
               os.path.join(SPEC, "MC_WorldSim.tla")]
        p = subprocess.run(cmd, cwd=meta, stdout=subprocess.PIPE, stderr=subprocess.STDOUT, text=True,
                           timeout=spec.get("timeout", 1800))
        if "Error:" in p.stdout and "@@B" not in p.stdout:
            raise ToolError("World simulation failed for %s:\n%s" % (layout, p.stdout[-2000:]))
        if re.search(r"Invariant \w+ is violated", p.stdout):
            raise ToolError("World.tla invariant violated in simulation (%s):\n%s" % (layout, p.stdout[-3000:]))
        seen = []
        for line in p.stdout.splitlines():
            m = re.match(r'^<<"@@B", (".*")>>\s*$', line)
            if m:
                b = json.loads(m.group(1))
                if b not in seen:
                    seen.append(b)
        beh = os.path.join(d, "world_%s.s%d.ndjson" % (layout, ctx.seed))
        open(beh, "w").write("\n".join(seen) + "\n")
        q = subprocess.run([PKV, "replay-world", beh, layout], stdout=subprocess.PIPE, stderr=subprocess.PIPE, text=True)
        if q.returncode != 0:
            raise ToolError("pkv replay-world failed: %s" % q.stderr[-1500:])
        for line in q.stdout.splitlines():
            if line.startswith("@@M "):
                r = json.loads(line[4:])
                if r["kind"] == "world-set-dependence":
                    r["prop"] = "C13"
                else:
                    dif = r["detail"]["differs"]
                    r["prop"] = {"events": "C01" if r["detail"]["host"] == "host2" else "C02", "modifiers": "C04",
                                 "character": "C03"}[dif]
                recs.append(r)
            elif line.startswith("@@S "):
                n = json.loads(line[4:])
                notes.append(n)
                total_steps += n["steps"]
                nbeh += n["behaviours"]
    return {"job": name, "verdict": "mismatch" if recs else "ok", "exit": 0, "records": recs, "notes": notes,
            "stats": {"generated": total_steps, "distinct": nbeh, "replay_calls": total_steps},
            "wall_s": round(time.time() - wall, 2), "module": "MC_WorldSim (-simulate) -> pkv replay-world"}


def run_tlapm(ctx, name, spec):
    """TLAPS: machine-checked proofs (unbounded) that complement TLC's bounded alphabets"""
    d = os.path.join(WORK, "tlapm", name)
    shutil.rmtree(d, ignore_errors=True)
    os.makedirs(d)
    for f in spec["files"]:
        shutil.copy(os.path.join(SPEC, f), d)
    t = time.time()
    try:
        p = subprocess.run(["tlapm", "--threads", "8", "--cleanfp", spec["files"][0]], cwd=d, stdout=subprocess.PIPE,
                           stderr=subprocess.STDOUT, text=True, timeout=spec.get("timeout", 1200))
    except subprocess.TimeoutExpired:
        raise ToolError("tlapm job %s timed out" % name)
    m = re.search(r"All (\d+) obligations? proved", p.stdout)
    if not m:
        raise ToolError("tlapm job %s: not all obligations proved\n%s" % (name, p.stdout[-3000:]))
    n = int(m.group(1))
    shutil.rmtree(d, ignore_errors=True)
    return {"job": name, "verdict": "ok", "exit": p.returncode, "records": [],
            "notes": [{"tlaps_obligations": n, "tlaps_discharged": n, "module": spec["files"][0]}],
            "stats": {"generated": 0, "distinct": 0}, "wall_s": round(time.time() - t, 2),
            "module": spec["files"][0] + " (tlapm)"}


def run_link(ctx, name, spec):
    """bit-level end to end: behaviours of LinkScan.tla generated by TLC (-simulate, seeded) - every bit
    the faulty wire delivers, every timeout-clear() - replayed into a real Keyboard and into the real frame
    and Set 2 stages used separately"""
    d = os.path.join(ctx.cache, "link")
    os.makedirs(d, exist_ok=True)
    wall = time.time()
    meta = os.path.join(WORK, "tlc", name)
    shutil.rmtree(meta, ignore_errors=True)
    os.makedirs(meta, exist_ok=True)
    cmd = ["java", "-XX:+UseParallelGC", "-Xmx4g", "-Xss1g", "-cp", TLA_JAR, "tlc2.TLC", "-workers", "1",
           "-simulate", "num=%d" % spec["num"], "-depth", "420", "-seed", str(ctx.seed),
           "-metadir", meta, "-cleanup", "-noGenerateSpecTE", "-nowarning", "-config",
           os.path.join(SPEC, "MC_LinkScanSim.cfg"), os.path.join(SPEC, "MC_LinkScanSim.tla")]
    p = subprocess.run(cmd, cwd=meta, stdout=subprocess.PIPE, stderr=subprocess.STDOUT, text=True,
                       timeout=spec.get("timeout", 1800))
    if "Error:" in p.stdout and "@@B" not in p.stdout:
        raise ToolError("LinkScan simulation failed:\n%s" % p.stdout[-2000:])
    if re.search(r"Invariant \w+ is violated", p.stdout):
        raise ToolError("LinkScan.tla invariant violated in simulation:\n%s" % p.stdout[-3000:])
    seen = {}
    for line in p.stdout.splitlines():
        m = re.match(r'^<<"@@B", (".*")>>\s*$', line)
        if m:
            seen.setdefault(json.loads(m.group(1)), None)
    beh = os.path.join(d, "link.%s.s%d.ndjson" % (name, ctx.seed))
    open(beh, "w").write("\n".join(seen) + "\n")
    q = subprocess.run([PKV, "replay-link", beh], stdout=subprocess.PIPE, stderr=subprocess.PIPE, text=True)
    if q.returncode != 0:
        raise ToolError("pkv replay-link failed: %s" % q.stderr[-1500:])
    recs, notes, total_steps, nbeh = [], [], 0, 0
    for line in q.stdout.splitlines():
        if line.startswith("@@M "):
            recs.append(json.loads(line[4:]))
        elif line.startswith("@@S "):
            n = json.loads(line[4:])
            notes.append(n)
            total_steps += n["steps"]
            nbeh += n["behaviours"]
    os.unlink(beh)
    return {"job": name, "verdict": "mismatch" if recs else "ok", "exit": 0, "records": recs, "notes": notes,
            "stats": {"generated": total_steps, "distinct": nbeh, "replay_calls": total_steps},
            "wall_s": round(time.time() - wall, 2), "module": "MC_LinkScanSim (-simulate) -> pkv replay-link"}


def run_pkv_job(ctx, name, spec):
    if spec["kind"] == "link":
        return run_link(ctx, name, spec)
    if spec["kind"] == "tlapm":
        return run_tlapm(ctx, name, spec)
    if spec["kind"] == "world":
        return run_world(ctx, name, spec)
    if spec["kind"] == "selfreplay":
        return run_selfreplay(ctx, name, spec)
    return run_replay(ctx, name, spec)


def run_selfreplay(ctx, name, spec):
    """replay the automaton extracted from the real object (by opaque Debug ids) back into the real
    object over all streams of a given length: guards the assumption that equal renderings mean
    equal states (hidden state would show up as a divergence) at a scale TLC could not ingest"""
    table = graph_as_table(ctx, spec["graph"])
    t = time.time()
    p = subprocess.run([PKV, "replay-table", spec["table"], table, str(spec["arg"])],
                       stdout=subprocess.PIPE, stderr=subprocess.PIPE, text=True, timeout=spec.get("timeout", 3600))
    if p.returncode != 0:
        raise ToolError("pkv replay-table (self) %s failed (%d): %s" % (spec["graph"], p.returncode, p.stderr[-1500:]))
    with open(ctx.art(spec["graph"])) as f:
        first = json.loads(f.readline())
    merged = first.get("idmode") == "behaviour"
    recs, notes = [], []
    for line in p.stdout.splitlines():
        if line.startswith("@@M "):
            r = json.loads(line[4:])
            r["prop"] = spec["prop"]
            # on an automaton obtained by behavioural merging a divergence says the merge was imperfect,
            # not that the property is violated: inconclusive
            r["kind"] = "unbounded" if merged else "self-replay"
            r["note"] = "the real object diverges from the automaton extracted from it: state not captured by its rendering"
            recs.append(r)
        elif line.startswith("@@S "):
            notes.append(json.loads(line[4:]))
    calls = notes[-1]["calls"] if notes else 0
    return {"job": name, "verdict": "mismatch" if recs else "ok", "exit": 0, "records": recs, "notes": notes,
            "stats": {"generated": calls, "distinct": notes[-1]["sequences"] if notes else 0, "replay_calls": calls},
            "wall_s": round(time.time() - t, 2), "module": "pkv replay-table (extracted automaton) " + spec["graph"]}


def run_replay(ctx, name, spec):
    """(R) replay of a TLC-exported table into the real object by the harness's generic table walker"""
    d = export_dir(ctx)
    table = spec["table"]
    t = time.time()
    p = subprocess.run([PKV, "replay-table", table, os.path.join(d, table + ".json"), str(spec["arg"])],
                       stdout=subprocess.PIPE, stderr=subprocess.PIPE, text=True, timeout=spec.get("timeout", 3600))
    if p.returncode != 0:
        raise ToolError("pkv replay-table %s failed (%d): %s" % (table, p.returncode, p.stderr[-1500:]))
    recs, notes = [], []
    prop, also = REPLAY_PROP[table]
    for line in p.stdout.splitlines():
        if line.startswith("@@M "):
            r = json.loads(line[4:])
            panic = isinstance(r.get("observed"), list) and r["observed"] and r["observed"][0] == "panic"
            r["prop"] = "C08" if panic else prop
            r["also"] = [prop] + also
            if table in ("set1", "set2"):       # same canonical case key as the (G) mechanism
                r["kind"] = "io"
                r["input"] = r["input"][1]
            elif table == "frame":
                r["kind"] = "io"
            elif table == "event":
                r["kind"] = "event-io"
                r["observed_query"] = r["observed"][1] if not panic else None
                r["observed"] = r["observed"][0] if not panic else r["observed"]
                r["expected_query"] = r["expected"][1]
                r["expected"] = r["expected"][0]
            elif table == "words":
                r["kind"] = "word"
            r["replayed"] = True
            recs.append(r)
        elif line.startswith("@@S "):
            notes.append(json.loads(line[4:]))
    calls = notes[-1]["calls"] if notes else 0
    return {"job": name, "verdict": "mismatch" if recs else "ok", "exit": 0, "records": recs, "notes": notes,
            "stats": {"generated": calls, "distinct": notes[-1]["sequences"] if notes else 0, "replay_calls": calls},
            "wall_s": round(time.time() - t, 2), "module": "Export_Tables -> pkv replay-table " + table}


# --------------------------------------------------------------------------- registries
ARTEFACTS = {
    "g_frame": ["graph", "frame", "bits", "100000", "{out}", "{alpha}"],
    "g_set1": ["graph", "set1", "bytes", "3000", "{out}", "{alpha}"],
    "g_set2": ["graph", "set2", "bytes", "3000", "{out}", "{alpha}"],
    "g_kb1_bytes": ["graph", "kb1", "bytes", "3000", "{out}", "{alpha}"],
    "g_kb2_bytes": ["graph", "kb2", "bytes", "3000", "{out}", "{alpha}"],
    "g_event": ["graph", "event", "events", "5000", "{out}", "{alpha}"],
    "g_event_ign": ["graph", "event_ign", "events", "5000", "{out}", "{alpha}"],
    "g_kb2_ign_events": ["graph", "kb2_ign", "kbevents", "4000", "{out}", "{alpha}"],
    "g_kb2_events": ["graph", "kb2", "kbevents", "4000", "{out}", "{alpha}"],
    "g_kb2_bits": ["graph", "kb2:lean", "bits", "60000", "{out}", "{alpha}"],
    "g_kb1_bits": ["graph", "kb1:lean", "bits", "60000", "{out}", "{alpha}"],
    "g_kb2_mixedq": ["graph", "kb2:lean", "mixedq", "250000", "{out}", "{alpha}"],
    "g_kb1_mixedq": ["graph", "kb1:lean", "mixedq", "150000", "{out}", "{alpha}"],
    "g_kb2_mixed": ["graph", "kb2:lean", "mixed", "300000", "{out}", "{alpha}"],
    # recorded calls: the repository's own test/example scenarios followed by seeded random interleavings
    "tr_noise_kb2": ["trace", "full", "kb2", "{seed}", "20", "2000", os.path.join(SPEC, "scenarios_kb2.json"), "{out}"],
    "tr_noise_kb1": ["trace", "full", "kb1", "{seed}", "20", "2000", os.path.join(SPEC, "scenarios_kb1.json"), "{out}"],
    "tr_noise_kb2_long": ["trace", "full", "kb2", "{seed}", "300", "5000", os.path.join(SPEC, "scenarios_kb2.json"), "{out}"],
    "tr_noise_kb1_long": ["trace", "full", "kb1", "{seed}", "300", "5000", os.path.join(SPEC, "scenarios_kb1.json"), "{out}"],
    "iso_kb2_q": ["isolation", "kb2", "32", "{out}"],
    "iso_kb1_q": ["isolation", "kb1", "32", "{out}"],
    "iso_kb2_t": ["isolation", "kb2", "3", "{out}"],
    "iso_kb1_t": ["isolation", "kb1", "3", "{out}"],
    "tr_sys3_kb2": ["trace", "systematic", "kb2", "3", "{out}"],
    "tr_sys4_kb2": ["trace", "systematic", "kb2", "4", "{out}"],
    "t_words": ["table", "words", "{out}"],
    "t_layouts": ["table", "layouts", "{out}"],
    "t_preds": ["table", "preds", "{out}"],
    "t_eventlayouts": ["table", "eventlayouts", "{out}", "{export}/event.json"],
    "g_frame_default": ["graph", "frame_default", "bits", "100000", "{out}", "{alpha}"],
    "g_set1_default": ["graph", "set1_default", "bytes", "3000", "{out}", "{alpha}"],
    "g_set2_default": ["graph", "set2_default", "bytes", "3000", "{out}", "{alpha}"],
}

JOBS = {
    "mc_frame": dict(kind="tlc", module="MC_Frame", cfg="MC_Frame.cfg", cont=False),
    "mc_frame_full": dict(kind="tlc", module="MC_Frame", cfg="MC_Frame_full.cfg", cont=False),
    "mc_set1": dict(kind="tlc", module="MC_Set1", cfg="MC_Set1.cfg", cont=False),
    "mc_set2": dict(kind="tlc", module="MC_Set2", cfg="MC_Set2.cfg", cont=False),
    "conf_frame": dict(kind="tlc", module="Conf_Frame", cfg="Conf_Frame.cfg",
                       env={"GRAPH": "art:g_frame", "COMP": "frame", "WORDS": "art:t_words"}),
    "conf_set1": dict(kind="tlc", module="Conf_Set1", cfg="Conf_Set1.cfg",
                      env={"GRAPH": "art:g_set1", "COMP": "set1"}),
    "conf_set2": dict(kind="tlc", module="Conf_Set2", cfg="Conf_Set2.cfg",
                      env={"GRAPH": "art:g_set2", "COMP": "set2"}),
    "conf_kb1_bytes": dict(kind="tlc", module="Conf_Set1", cfg="Conf_Set1.cfg",
                           env={"GRAPH": "art:g_kb1_bytes", "COMP": "kb1"}),
    "conf_kb2_bytes": dict(kind="tlc", module="Conf_Set2", cfg="Conf_Set2.cfg",
                           env={"GRAPH": "art:g_kb2_bytes", "COMP": "kb2"}),
    "conf_words": dict(kind="tlc", module="Conf_Words", cfg="Conf_Words.cfg",
                       env={"WORDS": "art:t_words", "GRAPH2": "art:g_kb2_bytes"}),
    "conf_layouts": dict(kind="tlc", module="Conf_Layouts", cfg="Conf_Layouts.cfg", workers=8, heap="8g",
                         env={"TABLE": "art:t_layouts", "SOURCE": "impl"}, timeout=1200),
    "conf_preds": dict(kind="tlc", module="Conf_Preds", cfg="Conf_Preds.cfg", workers=1,
                       env={"PREDS": "art:t_preds"}),
    "mc_event": dict(kind="tlc", module="MC_Event", cfg="MC_Event.cfg", workers=8, cont=False),
    "conf_event": dict(timeout=2400, kind="tlc", module="Conf_Event", cfg="Conf_Event.cfg", workers=8, heap="8g",
                       env={"GRAPH": "art:g_event", "ALPHA": "alpha:g_event", "COMP": "event"}),
    "conf_event_ign": dict(timeout=2400, kind="tlc", module="Conf_Event", cfg="Conf_Event.cfg", workers=8, heap="8g",
                           env={"GRAPH": "art:g_event_ign", "ALPHA": "alpha:g_event_ign", "COMP": "event_ign"}),
    "conf_kb2_ign_events": dict(timeout=2400, kind="tlc", module="Conf_Event", cfg="Conf_Event.cfg", workers=8, heap="8g",
                                env={"GRAPH": "art:g_kb2_ign_events", "ALPHA": "alpha:g_kb2_ign_events", "COMP": "kb2_ign"}),
    "conf_kb2_events": dict(timeout=2400, kind="tlc", module="Conf_Event", cfg="Conf_Event.cfg", workers=8, heap="8g",
                            env={"GRAPH": "art:g_kb2_events", "ALPHA": "alpha:g_kb2_events", "COMP": "kb2"}),
    "mc_keyboard_set2": dict(kind="tlc", module="MC_Keyboard", cfg="MC_Keyboard_set2.cfg", workers=8, cont=False),
    "mc_keyboard_set1": dict(kind="tlc", module="MC_Keyboard", cfg="MC_Keyboard_set1.cfg", workers=8, cont=False),
    "mc_keyboard_set2_full": dict(kind="tlc", module="MC_Keyboard", cfg="MC_Keyboard_set2_full.cfg", workers=12, cont=False, timeout=3600),
    "conf_kb2_bits": dict(kind="tlc", module="Conf_Keyboard", cfg="Conf_Keyboard.cfg", workers=8, heap="8g",
                          env={"GRAPH": "art:g_kb2_bits", "ALPHA": "alpha:g_kb2_bits", "COMP": "kb2", "FGRAPH": "art:g_frame", "SGRAPH": "art:g_set2", "EGRAPH": "art:g_event", "WORDS": "art:t_words"}),
    "conf_kb1_bits": dict(kind="tlc", module="Conf_Keyboard", cfg="Conf_Keyboard.cfg", workers=8, heap="8g",
                          env={"GRAPH": "art:g_kb1_bits", "ALPHA": "alpha:g_kb1_bits", "COMP": "kb1", "FGRAPH": "art:g_frame", "SGRAPH": "art:g_set1", "EGRAPH": "art:g_event", "WORDS": "art:t_words"}),
    "conf_kb2_mixedq": dict(kind="tlc", module="Conf_Keyboard", cfg="Conf_Keyboard.cfg", workers=8, heap="12g", timeout=2400,
                            env={"GRAPH": "art:g_kb2_mixedq", "ALPHA": "alpha:g_kb2_mixedq", "COMP": "kb2", "FGRAPH": "art:g_frame", "SGRAPH": "art:g_set2", "EGRAPH": "art:g_event", "WORDS": "art:t_words"}),
    "conf_kb1_mixedq": dict(kind="tlc", module="Conf_Keyboard", cfg="Conf_Keyboard.cfg", workers=8, heap="12g", timeout=2400,
                            env={"GRAPH": "art:g_kb1_mixedq", "ALPHA": "alpha:g_kb1_mixedq", "COMP": "kb1", "FGRAPH": "art:g_frame", "SGRAPH": "art:g_set1", "EGRAPH": "art:g_event", "WORDS": "art:t_words"}),
    # the whole event alphabet through Keyboard::process_keyevent against the real EventDecoder automaton
    "conf_kb2_events_wiring": dict(timeout=2400, kind="tlc", module="Conf_Keyboard", cfg="Conf_Keyboard.cfg", workers=8, heap="8g",
                                   env={"GRAPH": "art:g_kb2_events", "ALPHA": "alpha:g_kb2_events", "COMP": "kb2",
                                        "FGRAPH": "art:g_frame", "SGRAPH": "art:g_set2", "EGRAPH": "art:g_event",
                                        "WORDS": "art:t_words"}),
    "conf_kb2_mixed": dict(kind="tlc", module="Conf_Keyboard", cfg="Conf_Keyboard.cfg", workers=12, heap="28g", timeout=3600,
                           env={"GRAPH": "art:g_kb2_mixed", "ALPHA": "alpha:g_kb2_mixed", "COMP": "kb2", "FGRAPH": "art:g_frame", "SGRAPH": "art:g_set2", "EGRAPH": "art:g_event", "WORDS": "art:t_words"}),
    "trace_kb2": dict(kind="tlc", module="Trace_Keyboard", cfg="Trace_Keyboard.cfg", workers=1, cont=False,
                      jvm=["-Dtlc2.tool.queue.IStateQueue=StateDeque"],
                      env={"TRACE": "art:tr_noise_kb2", "COMP": "kb2", "FGRAPH": "art:g_frame", "SGRAPH": "art:g_set2", "EGRAPH": "art:g_event", "WORDS": "art:t_words"}),
    "trace_kb1": dict(kind="tlc", module="Trace_Keyboard", cfg="Trace_Keyboard.cfg", workers=1, cont=False,
                      jvm=["-Dtlc2.tool.queue.IStateQueue=StateDeque"],
                      env={"TRACE": "art:tr_noise_kb1", "COMP": "kb1", "FGRAPH": "art:g_frame", "SGRAPH": "art:g_set1", "EGRAPH": "art:g_event", "WORDS": "art:t_words"}),
    "tracespec_kb2": dict(kind="tlc", module="Trace_KeyboardSpec", cfg="Trace_KeyboardSpec.cfg", workers=1, cont=False,
                          jvm=["-Dtlc2.tool.queue.IStateQueue=StateDeque"],
                          env={"TRACE": "art:tr_noise_kb2", "COMP": "kb2"}),
    "tracespec_kb1": dict(kind="tlc", module="Trace_KeyboardSpec", cfg="Trace_KeyboardSpec.cfg", workers=1, cont=False,
                          jvm=["-Dtlc2.tool.queue.IStateQueue=StateDeque"],
                          env={"TRACE": "art:tr_noise_kb1", "COMP": "kb1"}),
    "tracespec_kb2_long": dict(kind="tlc", module="Trace_KeyboardSpec", cfg="Trace_KeyboardSpec.cfg", workers=1, cont=False,
                               heap="16g", timeout=3600, jvm=["-Dtlc2.tool.queue.IStateQueue=StateDeque"],
                               env={"TRACE": "art:tr_noise_kb2_long", "COMP": "kb2"}),
    "tracespec_kb1_long": dict(kind="tlc", module="Trace_KeyboardSpec", cfg="Trace_KeyboardSpec.cfg", workers=1, cont=False,
                               heap="16g", timeout=3600, jvm=["-Dtlc2.tool.queue.IStateQueue=StateDeque"],
                               env={"TRACE": "art:tr_noise_kb1_long", "COMP": "kb1"}),
    "tracespec_sys3": dict(kind="tlc", module="Trace_KeyboardSpec", cfg="Trace_KeyboardSpec.cfg", workers=1, cont=False,
                           jvm=["-Dtlc2.tool.queue.IStateQueue=StateDeque"], env={"TRACE": "art:tr_sys3_kb2", "COMP": "kb2"}),
    "tracespec_sys4": dict(kind="tlc", module="Trace_KeyboardSpec", cfg="Trace_KeyboardSpec.cfg", workers=1, cont=False,
                           heap="16g", timeout=3600,
                           jvm=["-Dtlc2.tool.queue.IStateQueue=StateDeque"], env={"TRACE": "art:tr_sys4_kb2", "COMP": "kb2"}),
    "trace_kb2_long": dict(kind="tlc", module="Trace_Keyboard", cfg="Trace_Keyboard.cfg", workers=1, heap="16g", timeout=3600, cont=False,
                           jvm=["-Dtlc2.tool.queue.IStateQueue=StateDeque"],
                           env={"TRACE": "art:tr_noise_kb2_long", "COMP": "kb2", "FGRAPH": "art:g_frame", "SGRAPH": "art:g_set2", "EGRAPH": "art:g_event", "WORDS": "art:t_words"}),
    "trace_kb1_long": dict(kind="tlc", module="Trace_Keyboard", cfg="Trace_Keyboard.cfg", workers=1, heap="16g", timeout=3600, cont=False,
                           jvm=["-Dtlc2.tool.queue.IStateQueue=StateDeque"],
                           env={"TRACE": "art:tr_noise_kb1_long", "COMP": "kb1", "FGRAPH": "art:g_frame", "SGRAPH": "art:g_set1", "EGRAPH": "art:g_event", "WORDS": "art:t_words"}),
    # (R) replay of TLC-exported tables: arg = stream length (scancode sets) or sampling stride
    "replay_set2_q": dict(kind="replay", table="set2", arg=3, env={"x": "repo"}),
    "replay_set1_q": dict(kind="replay", table="set1", arg=3, env={"x": "repo"}),
    "replay_set2_t": dict(kind="replay", table="set2", arg=4, env={"x": "repo"}),
    "replay_set1_t": dict(kind="replay", table="set1", arg=4, env={"x": "repo"}),
    "replay_words": dict(kind="replay", table="words", arg=1, env={"x": "repo"}),
    "replay_frame_q": dict(kind="replay", table="frame", arg=64, env={"x": "repo"}),
    "replay_frame_t": dict(kind="replay", table="frame", arg=1, env={"x": "repo"}),
    "replay_event_q": dict(kind="replay", table="event", arg=64, env={"x": "repo"}),
    "replay_event_t": dict(kind="replay", table="event", arg=1, env={"x": "repo"}, timeout=7200),
    "selfreplay_set2_q": dict(kind="selfreplay", table="set2", graph="g_set2", arg=3, prop="C07", env={"x": "repo"}),
    "selfreplay_set1_q": dict(kind="selfreplay", table="set1", graph="g_set1", arg=3, prop="C07", env={"x": "repo"}),
    "selfreplay_set2_t": dict(kind="selfreplay", table="set2", graph="g_set2", arg=4, prop="C07", env={"x": "repo"}),
    "selfreplay_set1_t": dict(kind="selfreplay", table="set1", graph="g_set1", arg=4, prop="C07", env={"x": "repo"}),
    # (coverage instrumentation of the recursive host operators exhausts the heap: off for World)
    "mc_world": dict(kind="tlc", module="MC_World", cfg="MC_World.cfg", workers=6, cont=False, heap="8g", coverage=False),
    "mc_world_full": dict(kind="tlc", module="MC_World", cfg="MC_World_full.cfg", workers=12, cont=False, heap="16g",
                          timeout=3600, coverage=False),
    "world_q": dict(kind="world", layouts=["Uk105Key", "De105Key"], num=100, env={"x": "repo"}),
    "world_t": dict(kind="world", layouts=["Us104Key", "Uk105Key", "De105Key", "Azerty", "No105Key", "FiSe105Key",
                                           "Colemak", "Dvorak104Key", "DVP104Key"], num=1500, env={"x": "repo"}, timeout=3600),
    "link_q": dict(kind="link", num=150, env={"x": "repo"}),
    "link_t": dict(kind="link", num=3000, env={"x": "repo"}, timeout=3600),
    "conf_iso_kb2_q": dict(kind="tlc", module="Conf_Isolation", cfg="Conf_Isolation.cfg", workers=1, cont=False,
                           env={"ISO": "art:iso_kb2_q", "COMP": "kb2"}),
    "conf_iso_kb1_q": dict(kind="tlc", module="Conf_Isolation", cfg="Conf_Isolation.cfg", workers=1, cont=False,
                           env={"ISO": "art:iso_kb1_q", "COMP": "kb1"}),
    "conf_iso_kb2_t": dict(kind="tlc", module="Conf_Isolation", cfg="Conf_Isolation.cfg", workers=1, cont=False, heap="16g",
                           env={"ISO": "art:iso_kb2_t", "COMP": "kb2"}, timeout=3600),
    "conf_iso_kb1_t": dict(kind="tlc", module="Conf_Isolation", cfg="Conf_Isolation.cfg", workers=1, cont=False, heap="16g",
                           env={"ISO": "art:iso_kb1_t", "COMP": "kb1"}, timeout=3600),
    # the layout contract judged on the specification's own deterministic model (satisfiability /
    # self-consistency of the reference data); depends on the spec only
    "conf_layouts_model": dict(kind="tlc", module="Conf_Layouts", cfg="Conf_Layouts.cfg", workers=8, heap="6g",
                               env={"TABLE": "model:table", "SOURCE": "model"}, spec_only=True),
    "mc_link": dict(kind="tlc", module="Link", cfg="Link.cfg", cont=False),
    "mc_link_hazard": dict(kind="tlc", module="Link", cfg="Link_hazard.cfg", cont=False, expect_violation="NoWrongByte"),
    # the wire + frame stage + Set 2 stage + the host's held-key set under line faults (spec side)
    "mc_linkscan": dict(kind="tlc", module="LinkScan", cfg="LinkScan.cfg", cont=False),
    "mc_linkscan_deep": dict(kind="tlc", module="LinkScan", cfg="LinkScan_deep.cfg", cont=False, timeout=1800),
    "mc_linkscan_hazard": dict(kind="tlc", module="LinkScan", cfg="LinkScan_hazard.cfg", cont=False, expect_violation="NoPhantomKey"),
    "conf_eventlayouts": dict(kind="tlc", module="Conf_EventLayouts", cfg="Conf_EventLayouts.cfg", workers=8, heap="8g",
                              env={"EVT": "art:t_eventlayouts", "TABLE": "art:t_layouts"}),
    # the second public constructor (Default) of each stage: same conformance as new()
    "conf_frame_default": dict(kind="tlc", module="Conf_Frame", cfg="Conf_Frame.cfg",
                               env={"GRAPH": "art:g_frame_default", "COMP": "frame_default", "WORDS": "art:t_words"}),
    "conf_set1_default": dict(kind="tlc", module="Conf_Set1", cfg="Conf_Set1.cfg",
                              env={"GRAPH": "art:g_set1_default", "COMP": "set1_default"}),
    "conf_set2_default": dict(kind="tlc", module="Conf_Set2", cfg="Conf_Set2.cfg",
                              env={"GRAPH": "art:g_set2_default", "COMP": "set2_default"}),
    "proof_keyboard": dict(kind="tlapm", files=["KeyboardProofs.tla", "Keyboard.tla"]),
    "proof_scan": dict(kind="tlapm", files=["ScanProofs.tla", "Set1Decoder.tla", "Set2Decoder.tla", "Scancodes.tla", "KeyCodes.tla"]),
    "conf_xlate": dict(kind="tlc", module="Conf_Xlate", cfg="Conf_Xlate.cfg", workers=4,
                       env={"GRAPH1": "art:g_set1", "GRAPH2": "art:g_set2"}),
    # negative controls on the specification side (selftest): a deliberately broken stage must be rejected
    "neg_mc_event": dict(kind="tlc", module="MC_Event", cfg="MC_Event_neg.cfg", workers=8, cont=False, coverage=False,
                         expect_violation="C04_ModsAreHistory"),
    "neg_mc_set2": dict(kind="tlc", module="MC_Set2", cfg="MC_Set2_neg.cfg", cont=False, coverage=False,
                        expect_violation_re=r"Assumption .* is false|Resync is violated"),
    "props_scan": dict(kind="tlc", module="Props_Scan", cfg="Props_Scan.cfg", workers=1,
                       env={"GRAPH1": "art:g_set1", "GRAPH2": "art:g_set2"}),
}

# which jobs decide which property; "spec" jobs check the specification itself,
# "impl" jobs bind it to the code. impl_count: how many implementation transitions / records /
# cells TLC validated in those jobs (computed from the artefacts).
PROPS = {
    "C01": dict(quick=["mc_set2", "conf_set2", "conf_kb2_bytes", "replay_set2_q", "tracespec_kb2", "conf_set2_default", "link_q"],
                thorough=["mc_set2", "conf_set2", "conf_kb2_bytes", "replay_set2_t", "tracespec_kb2_long", "conf_set2_default", "link_t"], graphs=["g_set2", "g_kb2_bytes"]),
    "C02": dict(quick=["mc_set1", "conf_set1", "conf_kb1_bytes", "replay_set1_q", "tracespec_kb1", "conf_set1_default"],
                thorough=["mc_set1", "conf_set1", "conf_kb1_bytes", "replay_set1_t", "tracespec_kb1_long", "conf_set1_default"], graphs=["g_set1", "g_kb1_bytes"]),
    "C05": dict(quick=["mc_frame", "conf_words", "replay_words"], thorough=["mc_frame_full", "conf_words", "replay_words"],
                tables=["t_words"]),
    "C06": dict(quick=["mc_frame", "mc_link", "mc_link_hazard", "conf_frame", "replay_frame_q", "conf_frame_default", "link_q"],
                thorough=["mc_frame_full", "mc_link", "mc_link_hazard", "conf_frame", "replay_frame_t", "conf_frame_default", "link_t"],
                graphs=["g_frame"]),
    "C07": dict(quick=["mc_set1", "mc_set2", "mc_linkscan", "mc_linkscan_hazard", "proof_scan", "props_scan", "selfreplay_set1_q", "selfreplay_set2_q"],
                thorough=["mc_set1", "mc_set2", "mc_linkscan", "mc_linkscan_deep", "mc_linkscan_hazard", "proof_scan", "props_scan", "selfreplay_set1_t", "selfreplay_set2_t"], graphs=["g_set1", "g_set2"]),
    "C13": dict(quick=["props_scan", "conf_xlate", "mc_world", "world_q"],
                thorough=["props_scan", "conf_xlate", "mc_world_full", "world_t"],
                graphs=["g_set1", "g_set2"]),
    "C19": dict(quick=["mc_set1", "mc_set2", "props_scan"], graphs=["g_set1", "g_set2"]),
    "C18": dict(quick=["mc_keyboard_set2", "proof_keyboard", "conf_kb2_mixedq", "conf_kb1_mixedq", "conf_kb2_events_wiring", "trace_kb2", "trace_kb1",
                       "conf_iso_kb2_q", "conf_iso_kb1_q", "link_q"],
                thorough=["link_t", "mc_keyboard_set2", "mc_keyboard_set1", "mc_keyboard_set2_full", "proof_keyboard", "conf_kb2_bits", "conf_kb1_bits", "conf_kb2_events_wiring",
                          "conf_kb2_mixedq", "conf_kb1_mixedq", "conf_kb2_mixed", "trace_kb2_long", "trace_kb1_long",
                          "conf_iso_kb2_t", "conf_iso_kb1_t"],
                graphs=["g_kb2_mixedq", "g_kb1_mixedq"],
                traces=["tr_noise_kb2", "tr_noise_kb1"], sweeps=["iso_kb2_q", "iso_kb1_q"],
                sweeps_thorough=["iso_kb2_t", "iso_kb1_t"],
                graphs_thorough=["g_kb2_bits", "g_kb1_bits", "g_kb2_mixedq", "g_kb1_mixedq", "g_kb2_mixed"],
                traces_thorough=["tr_noise_kb2_long", "tr_noise_kb1_long"]),
    "C03": dict(quick=["conf_layouts_model", "conf_layouts", "world_q"], thorough=["conf_layouts_model", "conf_layouts", "world_t"],
                tables=["t_layouts"]),
    "C09": dict(quick=["conf_layouts_model", "conf_layouts"], tables=["t_layouts"]),
    "C10": dict(quick=["conf_layouts_model", "conf_layouts"], tables=["t_layouts"]),
    "C11": dict(quick=["conf_layouts_model", "conf_layouts", "conf_preds"], tables=["t_layouts", "t_preds"]),
    "C04": dict(quick=["mc_event", "conf_event", "conf_kb2_events", "replay_event_q", "tracespec_kb2", "tracespec_sys3"],
                thorough=["mc_event", "conf_event", "conf_kb2_events", "replay_event_t", "tracespec_kb2_long", "tracespec_sys4"], graphs=["g_event", "g_kb2_events"]),
    "C14": dict(quick=["mc_event", "conf_event", "conf_kb2_events", "replay_event_q", "tracespec_kb2", "conf_eventlayouts", "tracespec_sys3", "conf_event_ign", "conf_kb2_ign_events"],
                thorough=["mc_event", "conf_event", "conf_kb2_events", "replay_event_t", "tracespec_kb2_long", "conf_eventlayouts", "tracespec_sys4", "conf_event_ign", "conf_kb2_ign_events"], graphs=["g_event", "g_kb2_events"]),
    "C08": dict(quick=["mc_frame", "conf_frame", "conf_words", "conf_set1", "conf_set2", "conf_kb1_bytes",
                       "conf_kb2_bytes", "conf_event", "conf_kb2_events", "conf_layouts", "conf_eventlayouts", "conf_frame_default", "conf_set1_default", "conf_set2_default", "replay_frame_q", "replay_set1_q", "replay_set2_q", "replay_event_q"],
                graphs=["g_frame", "g_set1", "g_set2", "g_kb1_bytes", "g_kb2_bytes", "g_event", "g_kb2_events"],
                tables=["t_words", "t_layouts"]),
    "C12": dict(quick=["conf_layouts_model", "conf_layouts"], tables=["t_layouts"]),
    "C15": dict(quick=["conf_layouts_model", "conf_layouts"], tables=["t_layouts"]),
    "C16": dict(quick=["conf_layouts_model", "conf_layouts"], tables=["t_layouts"]),
    "C17": dict(quick=["conf_layouts_model", "conf_layouts"], tables=["t_layouts"]),
}


# --------------------------------------------------------------------------- violations
def hexb(b):
    return "0x%02X" % b


def canon_key(rec):
    """canonical, stable identity of a violating case (used for known findings)"""
    k = rec.get("kind")
    if str(rec.get("comp", "")).endswith("_default"):
        # the same stage built through its second public constructor (Default): same case identity
        rec = dict(rec, comp=rec["comp"][:-len("_default")])
    if k == "io":
        inp = rec.get("input")
        inp_s = hexb(inp) if isinstance(inp, int) else json.dumps(inp, separators=(",", ":"))
        ctx = rec.get("ctx")
        ctx_s = ctx if isinstance(ctx, str) else json.dumps(ctx, separators=(",", ":"))
        obs = rec.get("observed")
        obs_s = "/".join(str(x) for x in obs) if isinstance(obs, list) and obs and obs[0] != "panic" else "panic"
        return "io comp=%s ctx=%s input=%s observed=%s" % (rec.get("comp"), ctx_s, inp_s, obs_s)
    if k == "trace-spec" and isinstance(rec.get("byte"), int) and rec["byte"] >= 0 and rec.get("prop") in ("C01", "C02"):
        obs = rec.get("observed")
        obs_s = "/".join(str(x) for x in obs) if obs and obs[0] != "panic" else "panic"
        return "io comp=%s ctx=%s input=%s observed=%s" % (rec.get("comp"), rec.get("ctx"), hexb(rec["byte"]), obs_s)
    if k == "trace-spec":
        return "trace-spec comp=%s ctx=%s input=%s observed=%s query=%s" % (
            rec.get("comp"), rec.get("ctx"), json.dumps(rec.get("input"), separators=(",", ":")),
            json.dumps(rec.get("observed"), separators=(",", ":")), json.dumps(rec.get("observed_query"), separators=(",", ":")))
    if k in ("isolation-stage", "isolation-result", "isolation-panic"):
        return "%s comp=%s bits=%s bytes=%s ev=%s what=%s" % (
            k, rec.get("comp"), rec.get("bits"), rec.get("bytes"), json.dumps(rec.get("ev"), separators=(",", ":")),
            json.dumps(rec.get("changed", rec.get("ops")), separators=(",", ":")))
    if k in ("link-wiring", "link-stage", "link-held"):
        return "%s input=%s after=%s detail=%s" % (k, json.dumps(rec.get("input"), separators=(",", ":")),
                                                   hashlib.sha256(json.dumps(rec.get("inputs_so_far")).encode()).hexdigest()[:10],
                                                   json.dumps(rec.get("detail"), separators=(",", ":"), sort_keys=True)[:200])
    if k in ("world-set-dependence", "world-host"):
        return "%s layout=%s s2=%s detail=%s" % (k, rec.get("layout"), rec.get("s2"),
                                                   hashlib.sha256(json.dumps(rec.get("detail"), sort_keys=True).encode()).hexdigest()[:10])
    if k == "self-replay":
        return "self-replay comp=%s state=%s input=%s observed=%s" % (
            rec.get("comp"), rec.get("state"), json.dumps(rec.get("input"), separators=(",", ":")),
            json.dumps(rec.get("observed"), separators=(",", ":")))
    if k in ("trace-ret", "trace-stage", "trace-obs"):
        return "%s comp=%s line=%s input=%s observed=%s" % (
            k, rec.get("comp"), rec.get("line"), json.dumps(rec.get("input"), separators=(",", ":")),
            json.dumps(rec.get("observed", rec.get("stage")), separators=(",", ":")))
    if k in ("kb-io", "kb-getter"):
        return "%s comp=%s ctx=%s input=%s observed=%s" % (
            k, rec.get("comp"), json.dumps(rec.get("ctx"), separators=(",", ":")),
            json.dumps(rec.get("input"), separators=(",", ":")), json.dumps(rec.get("observed"), separators=(",", ":")))
    if k in ("event-io", "getter", "mods-shown"):
        return "%s comp=%s ctx=%s input=%s observed=%s query=%s" % (
            k, rec.get("comp"), json.dumps(rec.get("ctx"), separators=(",", ":")),
            json.dumps(rec.get("input"), separators=(",", ":")), json.dumps(rec.get("observed"), separators=(",", ":")),
            json.dumps(rec.get("observed_query"), separators=(",", ":")))
    if k == "word":
        return "word comp=%s word=0x%03X observed=%s" % (rec.get("comp"), rec.get("word"), "/".join(map(str, rec.get("observed", []))))
    if k in ("xlate-forward",):
        return "xlate-forward prefix=%s set2=%s form=%s set2-gives=%s set1-gives=%s" % (
            rec["prefix"], hexb(rec["code2"]), rec["form"], "/".join(map(str, rec["o2"])), "/".join(map(str, rec["o1"])))
    if k == "xlate-history":
        # same case identity as the initial-state checks when it is the same disagreement
        if rec["o2"][0] == "ev":
            return "xlate-forward prefix=%s set2=%s form=%s set2-gives=%s set1-gives=%s" % (
                rec["prefix"], hexb(rec["code2"]), rec["form"], "/".join(map(str, rec["o2"])), "/".join(map(str, rec["o1"])))
        return "xlate-converse prefix=%s set1=%s form=%s set1-gives=%s" % (
            rec["prefix"], hexb(rec["code1"]), rec["form"], "/".join(map(str, rec["o1"])))
    if k in ("xlate-converse",):
        return "xlate-converse prefix=%s set1=%s form=%s set1-gives=%s" % (
            rec["prefix"], hexb(rec["code1"]), rec["form"], "/".join(map(str, rec["o1"])))
    if k == "resync":
        return "resync comp=%s access=%s input=%s" % (rec.get("comp"), rec.get("access"), hexb(rec["input"]))
    if k == "injective":
        return "injective comp=%s after=%s event=%s" % (rec.get("comp"), rec.get("after", []), "/".join(map(str, rec["event"][1:])))
    if k == "makebreak":
        return "makebreak comp=%s after=%s seq=%s" % (rec.get("comp"), rec.get("after", []), " ".join(hexb(b) for b in rec["seq"]))
    if "cells" in rec and "layout" in rec:
        rec = dict(rec, cells=[list(c) for c in rec["cells"]])
        dig = hashlib.sha256(json.dumps(sorted(rec["cells"])).encode()).hexdigest()[:10]
        return "layout kind=%s obj=%s key=%s mode=%s ncells=%d digest=%s" % (
            k, rec.get("obj"), rec.get("key"), rec.get("mode"), rec.get("ncells", 0), dig)
    if k == "untypeable":
        return "untypeable layout=%s mode=%s chars=%s" % (rec["layout"], rec["mode"], ",".join(map(str, sorted(rec["chars"]))))
    parts = ["%s=%s" % (a, json.dumps(rec[a], separators=(",", ":"), sort_keys=True))
             for a in sorted(rec) if a not in ("prop", "also", "note", "observed", "expected", "id", "post")]
    return "%s %s" % (k, " ".join(parts))


def describe(rec):
    d = dict(rec)
    if "cells" in d:
        d["cells"] = sorted(d["cells"])[:6]
    d.pop("prop", None)
    d.pop("also", None)
    return json.dumps(d, separators=(",", ":"), sort_keys=True)[:400]


def relevant(rec, pid):
    return rec.get("prop") == pid or pid in (rec.get("also") or [])


def load_known():
    findings, fixed = {}, []
    if os.path.exists(KNOWN):
        for line in open(KNOWN):
            line = line.strip()
            m = re.match(r"^finding: property=(\S+) key=\[(.*?)\] :: (.*)$", line)
            if m:
                findings[(m.group(1), m.group(2))] = m.group(3)
            elif line.startswith("fixed:"):
                fixed.append(line)
    return findings, fixed


def write_replay(ctx, pid, n, rec, jobname):
    os.makedirs(REPLAYS, exist_ok=True)
    path = os.path.join(REPLAYS, "%s-%03d.json" % (pid, n))
    doc = {"property": pid, "job": jobname, "key": canon_key(rec), "record": rec,
           "tree_hash": ctx.hash}
    comp = rec.get("comp")
    # turn alphabet indices into concrete inputs so the replay is self-contained
    gname = {"frame": "g_frame", "set1": "g_set1", "set2": "g_set2", "kb1": "g_kb1_bytes",
             "kb2": "g_kb2_bytes", "event": "g_event", "event_ign": "g_event_ign", "kb2_ign": "g_kb2_ign_events", "frame_default": "g_frame_default",
             "set1_default": "g_set1_default", "set2_default": "g_set2_default"}.get(comp)
    if comp == "kb2" and rec.get("kind") in ("event-io", "getter", "mods-shown"):
        gname = "g_kb2_events"
    if rec.get("kind") in ("kb-io", "kb-getter"):
        gname = rec.get("graph") or ("g_%s_mixedq" % comp)
        if jobname == "conf_kb2_events_wiring":
            gname = "g_kb2_events"
    gname = rec.get("graph", gname)
    if "access" in rec and gname in ARTEFACTS:
        try:
            alpha = ctx.alpha(gname)
            doc["component"] = ARTEFACTS[gname][1]
            doc["inputs"] = [alpha[a - 1] for a in rec["access"]]
            inp = rec.get("input")
            if isinstance(inp, int) and ARTEFACTS[gname][2] == "bytes":
                doc["inputs"].append(["byte", inp])
            elif isinstance(inp, list):
                doc["inputs"].append(inp)
        except Exception as e:  # replay stays usable as a record even without inputs
            doc["note"] = "could not expand access sequence: %s" % e
    elif str(rec.get("kind", "")).startswith("link-"):
        doc["component"] = "kb2"
        doc["inputs"] = rec["inputs_so_far"]
    elif "line" in rec and str(JOBS.get(jobname, {}).get("env", {}).get("TRACE", "")).startswith("art:"):
        # a recorded call: the inputs of its run, from the last reset up to and including the line
        try:
            tpath = ctx.art(JOBS[jobname]["env"]["TRACE"][4:])
            upto = int(rec["line"])
            run = []
            with open(tpath) as f:
                for n, l in enumerate(f, 1):
                    if n > upto:
                        break
                    x = json.loads(l)["in"]
                    if x[0] == "reset":
                        run = []
                    else:
                        run.append(x)
            doc["component"] = comp
            doc["inputs"] = run
        except Exception as e:
            doc["note"] = "could not extract the run from the trace: %s" % e
    elif str(rec.get("kind", "")).startswith("isolation-"):
        doc["component"] = comp
        doc["inputs"] = list(rec.get("ev", [])) + [["byte", b] for b in rec.get("bytes", [])] + [["bit", b] for b in rec.get("bits", [])]
        doc["note"] = "context only; apply the operations named by their numbers in the record (1..372 key events in enum order x Down/Up/SingleShot, 373-374 modes, 375-630 bytes, 631-2678 words, 2679-2680 bits, 2681 clear)"
    elif str(rec.get("kind", "")).startswith("world-"):
        doc["component"] = "kbl2:%s" % rec.get("layout")
        doc["note"] = "end-to-end step: Set 2 bytes s2 (host 2) / translated Set 1 bytes s1 (host 1); behaviour file in work/cache/<hash>/world/"
        doc["inputs"] = [["byte", b] for b in rec.get("s2", [])]
    elif "stream" in rec:
        doc["component"] = comp
        doc["inputs"] = rec["stream"]
    elif rec.get("kind") == "word":
        doc["component"] = "frame" if comp == "frame" else "kb2"
        doc["inputs"] = [["word", rec["word"]]]
    elif "cells" in rec and "obj" in rec:
        doc["cells"] = [[rec["obj"], rec["key"], c[0], rec["mode"]] for c in sorted(rec["cells"])[:32]]
    elif "seq" in rec:
        doc["component"] = comp
        doc["inputs"] = [["byte", b] for b in rec["seq"]]
    with open(path, "w") as f:
        json.dump(doc, f, indent=1)
    return path


def replay(path):
    doc = json.load(open(path))
    print("property:", doc.get("property"), " key:", doc.get("key"))
    print("spec/record:", json.dumps(doc.get("record"))[:1000])
    if "cells" in doc:
        subprocess.run(["cargo", "build", "--release", "--offline"], cwd=HARNESS,
                       stdout=subprocess.DEVNULL, stderr=subprocess.DEVNULL)
        tmp = path + ".cells.tmp"
        json.dump(doc["cells"], open(tmp, "w"))
        p = subprocess.run([PKV, "cells", tmp], stdout=subprocess.PIPE, text=True)
        os.unlink(tmp)
        print("re-execution against the current tree ([object, key, modifiers, mode] -> output):")
        print(p.stdout)
    if "inputs" in doc and "component" in doc:
        subprocess.run(["cargo", "build", "--release", "--offline"], cwd=HARNESS,
                       stdout=subprocess.DEVNULL, stderr=subprocess.DEVNULL)
        tmp = path + ".inputs.tmp"
        json.dump(doc["inputs"], open(tmp, "w"))
        p = subprocess.run([PKV, "run", doc["component"], tmp], stdout=subprocess.PIPE, text=True)
        os.unlink(tmp)
        print("re-execution against the current tree (component %s):" % doc["component"])
        print(p.stdout)
    return 0


# --------------------------------------------------------------------------- evidence
def count_lines(path):
    n = 0
    with open(path, "rb") as f:
        for _ in f:
            n += 1
    return n


def graph_transitions(path):
    n = 0
    samples = []
    with open(path) as f:
        for idx, line in enumerate(f):
            r = json.loads(line)
            n += len(r.get("out", []))
            if idx in (0, 1) or (idx % 997 == 5 and len(samples) < 4):
                samples.append({"state": r.get("id", "")[:120], "access": r["access"][:12],
                                "first_outputs": r["out"][:3]})
    return n, samples


def run_check(pid, tier, seed):
    t0 = time.time()
    if pid not in PROPS:
        log("unknown or unclaimed property", pid)
        return 2
    ctx = Ctx(tier, seed)
    p = PROPS[pid]
    jobs = p.get(tier) or p["quick"]
    results = []
    for j in jobs:
        log("[%s] job %s ..." % (pid, j))
        r = ctx.job(j)
        log("[%s] job %s: %s, %s, %.1fs" % (pid, j, r["verdict"], r["stats"], r["wall_s"]))
        results.append(r)
    # a mismatch of the specification's own model against the contract is a defect of the specification
    for r in results:
        if any(rec.get("source") == "model" for rec in r["records"]):
            raise ToolError("the layout model violates the layout contract (specification inconsistent): %s"
                            % json.dumps([x for x in r["records"] if x.get("source") == "model"][:3])[:1500])
    # collect mismatch records relevant to this property
    found = []
    for r in results:
        for rec in r["records"]:
            if relevant(rec, pid):
                found.append((r["job"], rec))
    findings, _fixed = load_known()
    violations, known_hit = [], []
    seen = set()
    # an exploration cap hit without any behavioural difference is not a violation: the object has
    # more distinct renderings than the cap (e.g. a new field that does not influence behaviour);
    # the check is then not exhaustive and says so
    real = [x for x in found if x[1].get("kind") != "unbounded"]
    inconclusive = [x for x in found if x[1].get("kind") == "unbounded"]
    if inconclusive and not real:
        print("NOTE property=%s exploration cap reached in %d product state(s) without any behavioural difference; "
              "result is not exhaustive for this tree" % (pid, len(inconclusive)))
    found = real
    for jobname, rec in found:
        key = canon_key(rec)
        if (pid, key) in seen:
            continue
        seen.add((pid, key))
        if (pid, key) in findings:
            known_hit.append((key, findings[(pid, key)]))
        else:
            violations.append((jobname, key, rec))
    for key, what in known_hit:
        print("KNOWN-FINDING: property=%s [%s] %s" % (pid, key, what))
    if os.environ.get("PKV_EMIT_FINDINGS"):   # developer aid: print lines in KNOWN_FINDINGS format
        for jobname, key, rec in violations:
            print("finding: property=%s key=[%s] :: %s" % (pid, key, describe(rec)))
    for n, (jobname, key, rec) in enumerate(violations):
        if n >= 25:
            print("... %d further violations not listed" % (len(violations) - n))
            break
        path = write_replay(ctx, pid, n, rec, jobname)
        print("VIOLATION property=%s replay=%s" % (pid, path))
        print("  case: %s :: %s" % (key, describe(rec)))
    # evidence
    impl_n, samples = 0, []
    for sname in (p.get("sweeps_" + tier) or p.get("sweeps", [])):
        path = ctx.art(sname)
        n = count_lines(path)
        impl_n += n * 2681
        with open(path) as f:
            first = json.loads(f.readline())
        samples.append({"artefact": sname, "contexts": n, "operations_per_context": 2681, "first_record": first})
    for tname in (p.get("traces_" + tier) or p.get("traces", [])):
        path = ctx.art(tname)
        impl_n += count_lines(path)
        with open(path) as f:
            lines = [json.loads(f.readline()) for _ in range(4)]
        samples.append({"artefact": tname, "first_lines": lines})
    for g in (p.get("graphs_" + tier) or p.get("graphs", [])):
        n, s = graph_transitions(ctx.art(g))
        impl_n += n
        samples += [dict(x, artefact=g) for x in s[:2]]
    for tname in p.get("tables", []):
        path = ctx.art(tname)
        impl_n += p.get("cells_per_record", {}).get(tname, 512 if tname in ("t_words", "t_layouts") else 1) * count_lines(path)
        with open(path) as f:
            first = json.loads(f.readline())
        samples.append({"artefact": tname, "record": {k: (v[:4] if isinstance(v, list) else v) for k, v in first.items()}})
    impl_n += sum(r["stats"].get("replay_calls", 0) for r in results)
    states = sum(r["stats"].get("distinct", 0) for r in results)
    trans = sum(r["stats"].get("generated", 0) for r in results)
    ev = {
        "property_id": pid, "tier": tier, "seed": seed, "level": "model_checking",
        "coverage": {
            "states": max(states, 1), "transitions": max(trans, 1),
            "traces_validated_against_impl": impl_n,
            "samples": samples or [{"jobs": jobs}],
            "exhaustive": not inconclusive,
            "jobs": [{"job": r["job"], "module": r["module"], "verdict": r["verdict"],
                      "tlc_states_generated": r["stats"].get("generated"),
                      "tlc_distinct_states": r["stats"].get("distinct"), "wall_s": r["wall_s"],
                      "served_from_cache_of_same_tree": bool(r.get("from_cache")),
                      "notes": r["notes"][:3]} for r in results],
            "known_findings_observed": len(known_hit),
            "readme_table_vs_reference": (readme_report() if pid in ("C01", "C02", "C13") else None),
            "model_drift_informational": (model_drift(ctx) if "conf_layouts_model" in jobs else None),
            "rule": "traces_validated_against_impl = implementation transitions / table cells / trace lines "
                    "extracted from the real objects in this run and judged by TLC, plus calls made by the "
                    "table walker against TLC-exported tables (jobs named replay_* / selfreplay_*)",
        },
        "assumptions": ["TLC 1.8.0 and CommunityModules Json/IOUtils are correct",
                        "equal derived-Debug renderings mean equal object state (hook verif-hooks)",
                        "reference tables in spec/Scancodes.tla, Xlate8042.tla, LayoutRef.tla transcribed correctly"],
        "wall_s": round(time.time() - t0, 2),
        "violations": len(violations),
        "tree_hash": ctx.hash,
    }
    os.makedirs(EVID, exist_ok=True)
    with open(os.path.join(EVID, pid + ".json"), "w") as f:
        json.dump(ev, f, indent=1)
    print("%s %s: %d job(s), %d implementation transitions/cells/replayed calls judged against the specification, %d violation(s), %d known finding(s), %.1fs"
          % (pid, tier, len(results), impl_n, len(violations), len(known_hit), time.time() - t0))
    return 1 if violations else 0


def main(argv):
    if not argv:
        print(__doc__)
        return 2
    try:
        if argv[0] == "--replay":
            return replay(argv[1])
        tier = os.environ.get("VERIF_TIER", "quick")
        seed = int(os.environ.get("VERIF_SEED", "1") or 1)
        if argv[0] == "--all":
            if len(argv) > 1:
                tier = argv[1]
            rc = 0
            for pid in sorted(PROPS):
                rc = max(rc, run_check(pid, tier, seed))
            return rc
        if argv[0] == "--setup":
            from pkv_selftest import setup
            return setup()
        if argv[0] == "--selftest":
            from pkv_selftest import selftest
            return selftest()
        if len(argv) > 1:
            tier = argv[1]
        if tier not in ("quick", "thorough"):
            log("tier must be quick or thorough")
            return 2
        return run_check(argv[0], tier, seed)
    except ToolError as e:
        log("TOOL-ERROR:", e)
        return 2
    except subprocess.TimeoutExpired as e:
        log("TOOL-ERROR: timeout", e)
        return 2
