"""setup and self-test (negative controls) for the pc-keyboard verification machinery.

The self-test demonstrates the binding between specification and code: for each conformance
mechanism it corrupts ONE field of an artefact extracted from the real code (or drops one recorded
event) and requires TLC to reject it, and it requires the uncorrupted artefact to be accepted.
"""
import glob, json, os, subprocess, sys
import pkverif
from pkverif import log


def setup():
    env = dict(os.environ, CARGO_NET_OFFLINE="true")
    p = subprocess.run(["cargo", "build", "--release", "--offline"], cwd=pkverif.HARNESS, env=env)
    if p.returncode != 0:
        log("setup: harness build failed")
        return 2
    bad = 0
    for f in sorted(glob.glob(os.path.join(pkverif.SPEC, "*.tla"))):
        p = subprocess.run(["java", "-DTLA-Library=/opt/veriftools/tlapm/lib/tlapm/stdlib", "-cp", pkverif.TLA_JAR,
                            "tla2sany.SANY", f], cwd=pkverif.SPEC,
                           stdout=subprocess.PIPE, stderr=subprocess.STDOUT, text=True)
        if p.returncode != 0 or "Semantic errors" in p.stdout or "Parse Error" in p.stdout or "Fatal" in p.stdout:
            log("setup: SANY rejects", f)
            log(p.stdout[-1500:])
            bad += 1
    if bad:
        return 2
    log("setup: harness built, %d modules parse" % len(glob.glob(os.path.join(pkverif.SPEC, "*.tla"))))
    return selftest()


def _lines(path):
    with open(path) as f:
        return [json.loads(l) for l in f]


def _write(path, recs):
    with open(path, "w") as f:
        for r in recs:
            f.write(json.dumps(r, separators=(",", ":")) + "\n")


def selftest():
    try:
        ctx = pkverif.Ctx("quick", 1)
        d = os.path.join(pkverif.WORK, "selftest")
        os.makedirs(d, exist_ok=True)
        cases = []

        # (G) scancode graph: one output of one transition changed (F9 -> F10 on Set 2 code 0x01)
        g = _lines(ctx.art("g_set2"))
        g[0]["out"][1] = ["ev", "F10", "Down"]
        p = os.path.join(d, "g_set2_corrupt.ndjson")
        _write(p, g)
        cases.append(("graph record: one output changed", "conf_set2", {"GRAPH": p}, "C01"))

        # (G) scancode graph: one successor redirected (after E0, byte 0x14 leads back to the E0 state)
        g = _lines(ctx.art("g_set2"))
        e0 = g[0]["post"][0xE0]
        g[e0 - 1]["post"][0x14] = e0
        p = os.path.join(d, "g_set2_corrupt2.ndjson")
        _write(p, g)
        cases.append(("graph record: one successor changed", "props_scan", {"GRAPH2": p}, "C07"))

        # (G) frame graph: the 11th-bit result of one frame changed
        g = _lines(ctx.art("g_frame"))
        done = False
        for r in g:
            for a in (0, 1):
                if r["out"][a] != ["none"] and not done:
                    r["out"][a] = ["byte", 0] if r["out"][a] != ["byte", 0] else ["byte", 1]
                    done = True
        p = os.path.join(d, "g_frame_corrupt.ndjson")
        _write(p, g)
        cases.append(("frame graph: one frame verdict changed", "conf_frame", {"GRAPH": p}, "C06"))

        # (T) words table: one word's verdict changed
        w = _lines(ctx.art("t_words"))
        w[4]["r"][7] = ["err", "ParityError"] if w[4]["r"][7] != ["err", "ParityError"] else ["byte", 3]
        p = os.path.join(d, "t_words_corrupt.ndjson")
        _write(p, w)
        cases.append(("words table: one verdict changed", "conf_words", {"WORDS": p}, "C05"))

        # (T) layout table: one cell changed (Us104Key, key A, no modifiers: 'a' -> 'b')
        t = _lines(ctx.art("t_layouts"))
        for r in t:
            if r["obj"] == "Us104Key" and r["k"] == "A" and r["h"] == "Ignore":
                r["o"][16] = 98
        p = os.path.join(d, "t_layouts_corrupt.ndjson")
        _write(p, t)
        cases.append(("layout table: one cell changed", "conf_layouts", {"TABLE": p}, "C03"))

        # (G) event graph: one consulted-modifiers field changed
        g = _lines(ctx.art("g_event"))
        for idx, q in enumerate(g[5]["q"]):
            if q[0] == "q":
                g[5]["q"][idx] = [q[0], q[1], q[2], q[3] ^ 1, q[4]]
                break
        p = os.path.join(d, "g_event_corrupt.ndjson")
        _write(p, g)
        cases.append(("event graph: modifiers shown to the layout changed in one transition", "conf_event", {"GRAPH": p}, "C14"))

        # (G) composite graph: one result changed
        g = _lines(ctx.art("g_kb2_mixedq"))
        g[100]["out"][3] = ["err", "BadStopBit"]
        p = os.path.join(d, "g_kb2_corrupt.ndjson")
        _write(p, g)
        cases.append(("composite graph: one result changed", "conf_kb2_mixedq", {"GRAPH": p}, "C18"))

        # (V) trace: one returned value corrupted / one event dropped
        tr = _lines(ctx.art("tr_noise_kb2"))
        t1 = [dict(x) for x in tr]
        k = next(i for i, x in enumerate(t1) if i > 50 and x["in"][0] == "byte")
        t1[k]["ret"] = ["ev", "F1", "Down"] if t1[k]["ret"] != ["ev", "F1", "Down"] else ["none"]
        p = os.path.join(d, "tr_corrupt.ndjson")
        _write(p, t1)
        cases.append(("trace: one logged return value corrupted", "trace_kb2", {"TRACE": p}, "C18"))
        k = next(i for i, x in enumerate(tr) if i > 50 and x["in"][0] == "bit")
        t2 = tr[:k] + tr[k + 1:]
        p = os.path.join(d, "tr_dropped.ndjson")
        _write(p, t2)
        cases.append(("trace: one recorded event dropped", "trace_kb2", {"TRACE": p}, "C18"))

        failed = 0
        # specification-side negative controls: a deliberately broken stage spec must violate its property
        for job, what in (("neg_mc_event", "spec: LAlt release clears the AltGr flag (MC_Event)"),
                          ("neg_mc_set2", "spec: context not reset after an undefined E0 F0 code (MC_Set2)")):
            try:
                r = pkverif.run_tlc(ctx, "selftest_" + job, pkverif.JOBS[job])
                log("selftest: %-70s rejected (%s)" % (what, r["notes"]))
            except pkverif.ToolError as e:
                log("selftest: %-70s NOT REJECTED %s" % (what, str(e)[:200]))
                failed += 1
        for what, job, env, pid in cases:
            spec = pkverif.JOBS[job]
            try:
                r = pkverif.run_tlc(ctx, "selftest_" + job, spec, env_override=env)
                n = sum(1 for rec in r["records"] if pkverif.relevant(rec, pid))
            except pkverif.ToolError as e:
                log("selftest: %-70s TOOL ERROR %s" % (what, str(e)[:300]))
                failed += 1
                continue
            ok = n > 0
            log("selftest: %-70s %s (%d record(s) for %s via %s)" % (what, "rejected" if ok else "NOT REJECTED", n, pid, job))
            failed += 0 if ok else 1
        # (L) bit-level behaviour replay: the valid frame of 0x1C (A down), hand-written; the faithful
        # expectation must be accepted, one corrupted expected result / one corrupted held set rejected
        import subprocess
        bits = [0, 0, 0, 1, 1, 1, 0, 0, 0, 0, 1]
        good = [dict(op="bit", b=b, f=["none"], out=["none"], down=[], ctx="Start") for b in bits]
        good[10].update(f=["byte", 28], out=["ev", "A", "Down"], down=["A"])
        bad1 = [dict(x) for x in good]
        bad1[10] = dict(bad1[10], out=["ev", "S", "Down"], down=["S"])
        bad2 = [dict(x) for x in good]
        bad2[10] = dict(bad2[10], down=[])
        bad3 = [dict(x) for x in good]
        bad3[10] = dict(bad3[10], f=["err", "ParityError"], out=["err", "ParityError"], down=[])
        for what, beh, want in (("link replay: faithful behaviour accepted", good, None),
                                ("link replay: expected event corrupted", bad1, "C01"),
                                ("link replay: host held set corrupted", bad2, "C18"),
                                ("link replay: expected frame verdict corrupted", bad3, "C06")):
            pth = os.path.join(d, "link_selftest.ndjson")
            open(pth, "w").write(json.dumps(beh) + "\n")
            q = subprocess.run([pkverif.PKV, "replay-link", pth], stdout=subprocess.PIPE, stderr=subprocess.PIPE, text=True)
            got = [json.loads(l[4:])["prop"] for l in q.stdout.splitlines() if l.startswith("@@M ")]
            ok = q.returncode == 0 and (got == [] if want is None else got == [want])
            log("selftest: %-70s %s (%s)" % (what, "ok" if ok else "FAILED", got))
            failed += 0 if ok else 1
        import shutil
        shutil.rmtree(d, ignore_errors=True)
        if failed:
            log("selftest: %d negative control(s) failed" % failed)
            return 2
        log("selftest: all %d negative controls rejected" % (len(cases) + 5))
        return 0
    except pkverif.ToolError as e:
        log("TOOL-ERROR:", e)
        return 2
