"""setup and self-test (negative controls) for the pc-keyboard verification machinery."""
import glob, json, os, subprocess, sys
import pkverif
from pkverif import log


def setup():
    env = dict(os.environ, CARGO_NET_OFFLINE="true")
    p = subprocess.run(["cargo", "build", "--release", "--offline"], cwd=pkverif.HARNESS, env=env)
    if p.returncode != 0:
        log("setup: harness build failed")
        return 2
    bad = 0
    for f in sorted(glob.glob(os.path.join(pkverif.SPEC, "*.tla"))):
        p = subprocess.run(["java", "-cp", pkverif.TLA_JAR, "tla2sany.SANY", f], cwd=pkverif.SPEC,
                           stdout=subprocess.PIPE, stderr=subprocess.STDOUT, text=True)
        if p.returncode != 0 or "Semantic errors" in p.stdout or "Parse Error" in p.stdout or "Fatal" in p.stdout:
            log("setup: SANY rejects", f)
            log(p.stdout[-1500:])
            bad += 1
    if bad:
        return 2
    log("setup: harness built, %d modules parse" % len(glob.glob(os.path.join(pkverif.SPEC, "*.tla"))))
    return selftest()


def selftest():
    log("selftest: (negative controls are added as the mechanisms are built)")
    return 0
