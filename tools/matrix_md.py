#!/usr/bin/env python3
"""Render seeded/RESULTS.json (+ benign/RESULTS.json) as the markdown table of DESIGN.md section 0.5."""
import json, os, re, sys
V = os.path.dirname(os.path.dirname(os.path.abspath(__file__)))
res = json.load(open(os.path.join(V, "seeded", "RESULTS.json")))
out = []
out.append("| seeded change | breaks | what it is / what it needs to manifest | flagged by (quick tier) |")
out.append("|---|---|---|---|")
for m in sorted(res):
    meta_p = os.path.join(V, "seeded", m, "meta.json")
    if not os.path.exists(meta_p):
        continue
    meta = json.load(open(meta_p))
    notes = " ".join(meta.get("needs_to_manifest", []))
    notes = re.sub(r"[#*`|]", "", notes)
    notes = re.sub(r"\s+", " ", notes).strip()[:230]
    row = res[m]
    flagged = sorted(p for p, v in row.items() if isinstance(v, dict) and v.get("exit") == 1)
    errs = sorted(p for p, v in row.items() if isinstance(v, dict) and v.get("exit") == 2)
    own = meta["property"]
    f = ", ".join(("**%s**" % p) if p == own else p for p in flagged) or "NOT FLAGGED"
    if errs:
        f += " (tool error: %s)" % ", ".join(errs)
    out.append("| %s | %s | %s | %s |" % (m, own, notes, f))
print("\n".join(out))
bp = os.path.join(V, "benign", "RESULTS.json")
if os.path.exists(bp):
    b = json.load(open(bp))
    print("\nBehaviour-preserving refactors (nothing may be flagged):\n")
    for m in sorted(b):
        flagged = sorted(p for p, v in b[m].items() if isinstance(v, dict) and v.get("exit") != 0)
        print("* %s: %s" % (m, "flagged by " + ", ".join(flagged) if flagged else "no check flags it"))
