#!/usr/bin/env python3
"""Authoring aid for spec/LayoutRef.tla.

The national / ergonomic layout standards are written here, by hand, as readable Unicode
(key -> base, shift, AltGr levels; each level is a *string of acceptable characters*, usually
one) and emitted as TLA+ with code points (TLC's handling of non-ASCII string literals depends
on the JVM file.encoding, so the spec never contains one).  Sources: ANSI INCITS 154 (US),
BS 4822 / Windows KBDUK (UK), DIN 2137-1:2012 T1 (German), Windows KBDFR "AZERTY" (French),
NS 4129 / KBDNO (Norwegian), SFS 5966 basic level / KBDFI+KBDSW (Finnish/Swedish), OADG 109 and
109A (JIS), colemak.com (Colemak), ANSI X3.207 (Dvorak), kaufmann.no (Programmer Dvorak).
Written from the standards, not from the crate's match arms; the result is committed as
spec/LayoutRef.tla and is the source of truth from then on.
"""
import os

ANSI = ["Oem8", "Key1", "Key2", "Key3", "Key4", "Key5", "Key6", "Key7", "Key8", "Key9", "Key0",
        "OemMinus", "OemPlus",
        "Q", "W", "E", "R", "T", "Y", "U", "I", "O", "P", "Oem4", "Oem6", "Oem7",
        "A", "S", "D", "F", "G", "H", "J", "K", "L", "Oem1", "Oem3",
        "Z", "X", "C", "V", "B", "N", "M", "OemComma", "OemPeriod", "Oem2"]
ISO = ANSI + ["Oem5"]
JIS = [k for k in ANSI if k != "Oem8"] + ["Oem12", "Oem13"]


def rows(keys, base, shift):
    assert len(keys) == len(base) == len(shift), (len(keys), len(base), len(shift))
    return {k: [b, s, ""] for k, b, s in zip(keys, base, shift)}


US = rows(ANSI, "`1234567890-=" "qwertyuiop[]\\" "asdfghjkl;'" "zxcvbnm,./",
                "~!@#$%^&*()_+" "QWERTYUIOP{}|" "ASDFGHJKL:\"" "ZXCVBNM<>?")


def derive(base, over, add=()):
    d = {k: list(v) for k, v in base.items()}
    for k in add:
        d[k] = ["", "", ""]
    for k, v in over.items():
        v = list(v) + [""] * (3 - len(v))
        d[k] = v
    return d


LAYOUTS = {}
LAYOUTS["Us104Key"] = ("ANSI", US)

# United Kingdom: AltGr+` is the broken bar on Windows (KBDUK) and the solid bar on X11 (gb)
LAYOUTS["Uk105Key"] = ("ISO", derive(US, {
    "Oem8": ["`", "¬", "|¦"], "Key2": ["2", '"'], "Key3": ["3", "£"],
    "Key4": ["4", "$", "€"], "Oem3": ["'", "@"], "Oem7": ["#", "~"], "Oem5": ["\\", "|"],
    "A": ["a", "A", "á"], "E": ["e", "E", "é"], "I": ["i", "I", "í"],
    "O": ["o", "O", "ó"], "U": ["u", "U", "ú"]}, add=["Oem5"]))

# German T1 (DIN 2137-1).  QWERTZ.
LAYOUTS["De105Key"] = ("ISO", derive(US, {
    "Oem8": ["^", "°"], "Key2": ["2", '"', "²"], "Key3": ["3", "§", "³"],
    "Key6": ["6", "&"], "Key7": ["7", "/", "{"], "Key8": ["8", "(", "["], "Key9": ["9", ")", "]"],
    "Key0": ["0", "=", "}"], "OemMinus": ["ß", "?", "\\"], "OemPlus": ["´", "`"],
    "Q": ["q", "Q", "@"], "E": ["e", "E", "€"], "Y": ["z", "Z"], "Oem4": ["ü", "Ü"],
    "Oem6": ["+", "*", "~"], "Oem7": ["#", "'"], "Oem1": ["ö", "Ö"],
    "Oem3": ["ä", "Ä"], "Z": ["y", "Y"], "M": ["m", "M", "µ"],
    "OemComma": [",", ";"], "OemPeriod": [".", ":"], "Oem2": ["-", "_"],
    "Oem5": ["<", ">", "|"]}, add=["Oem5"]))

# French AZERTY (KBDFR).  Shift+superscript-two: nothing on Windows, '~' on X11, the crate repeats
# the base level; AltGr on the circumflex key is not attributable to a standard offline: the
# shipped caron is pinned and flagged unverified (DESIGN.md section 3.5).
LAYOUTS["Azerty"] = ("ISO", derive(US, {
    "Oem8": ["²", "²~"], "Key1": ["&", "1"], "Key2": ["é", "2", "~"],
    "Key3": ['"', "3", "#"], "Key4": ["'", "4", "{"], "Key5": ["(", "5", "["],
    "Key6": ["-", "6", "|"], "Key7": ["è", "7", "`"], "Key8": ["_", "8", "\\"],
    "Key9": ["ç", "9", "^"], "Key0": ["à", "0", "@"], "OemMinus": [")", "°", "]"],
    "OemPlus": ["=", "+", "}"], "Q": ["a", "A"], "W": ["z", "Z"], "E": ["e", "E", "€"],
    "Oem4": ["^", "¨", "ˇ"], "Oem6": ["$", "£", "¤"], "Oem7": ["*", "µ"],
    "A": ["q", "Q"], "Oem1": ["m", "M"], "Oem3": ["ù", "%"], "Z": ["w", "W"],
    "M": [",", "?"], "OemComma": [";", "."], "OemPeriod": [":", "/"], "Oem2": ["!", "§"],
    "Oem5": ["<", ">"]}, add=["Oem5"]))

NORDIC = {
    "Key2": ["2", '"', "@"], "Key3": ["3", "#", "£"], "Key4": ["4", "¤", "$"],
    "Key5": ["5", "%", "€"], "Key6": ["6", "&"], "Key7": ["7", "/", "{"],
    "Key8": ["8", "(", "["], "Key9": ["9", ")", "]"], "Key0": ["0", "=", "}"],
    "E": ["e", "E", "€"], "Oem4": ["å", "Å"], "Oem6": ["¨", "^", "~"],
    "Oem7": ["'", "*"], "M": ["m", "M", "µ"], "OemComma": [",", ";"],
    "OemPeriod": [".", ":"], "Oem2": ["-", "_"]}
LAYOUTS["No105Key"] = ("ISO", derive(US, dict(NORDIC, **{
    "Oem8": ["|", "§"], "OemMinus": ["+", "?"], "OemPlus": ["\\", "`", "´"],
    "Oem1": ["ø", "Ø"], "Oem3": ["æ", "Æ"], "Oem5": ["<", ">"]}), add=["Oem5"]))
LAYOUTS["FiSe105Key"] = ("ISO", derive(US, dict(NORDIC, **{
    "Oem8": ["§", "½"], "OemMinus": ["+", "?", "\\"], "OemPlus": ["´", "`"],
    "Oem1": ["ö", "Ö"], "Oem3": ["ä", "Ä"], "Oem5": ["<", ">", "|"]}), add=["Oem5"]))

# JIS: OADG 109 has Shift+0 = '~' and Shift+^ = overline; OADG 109A has no Shift+0 and Shift+^ = '~'
jis = derive(US, {
    "Key2": ["2", '"'], "Key6": ["6", "&"], "Key7": ["7", "'"], "Key8": ["8", "("],
    "Key9": ["9", ")"], "Key0": ["0", "~"], "OemMinus": ["-", "="], "OemPlus": ["^", "¯~"],
    "Oem4": ["@", "`"], "Oem6": ["[", "{"], "Oem7": ["]", "}"], "Oem1": [";", "+"],
    "Oem3": [":", "*"], "Oem12": ["\\", "_"], "Oem13": ["¥", "|"]}, add=["Oem12", "Oem13"])
del jis["Oem8"]
LAYOUTS["Jis109Key"] = ("JIS", jis)

LAYOUTS["Colemak"] = ("ANSI", rows(ANSI, "`1234567890-=" "qwfpgjluy;[]\\" "arstdhneio'" "zxcvbkm,./",
                                         "~!@#$%^&*()_+" "QWFPGJLUY:{}|" "ARSTDHNEIO\"" "ZXCVBKM<>?"))
LAYOUTS["Dvorak104Key"] = ("ANSI", rows(ANSI, "`1234567890[]" "',.pyfgcrl/=\\" "aoeuidhtns-" ";qjkxbmwvz",
                                              "~!@#$%^&*(){}" "\"<>PYFGCRL?+|" "AOEUIDHTNS_" ":QJKXBMWVZ"))
LAYOUTS["DVP104Key"] = ("ANSI", rows(ANSI, "$&[{}(=*)+]!#" ";,.pyfgcrl/@\\" "aoeuidhtns-" "'qjkxbmwvz",
                                           "~%7531902468`" ":<>PYFGCRL?^|" "AOEUIDHTNS_" "\"QJKXBMWVZ"))

BOARD = {"ANSI": "MainAnsi", "ISO": "MainIso", "JIS": "MainJis"}
ORDER = ["DVP104Key", "Dvorak104Key", "Us104Key", "Uk105Key", "Jis109Key", "Azerty", "Colemak",
         "De105Key", "No105Key", "FiSe105Key"]
DECIMAL = {"No105Key": ",", "FiSe105Key": ",", "De105Key": ".,"}


def cps(s):
    return "{" + ", ".join(str(ord(c)) for c in s) + "}"


def main():
    out = []
    out.append("---------------------------- MODULE LayoutRef ----------------------------")
    out.append("(***************************************************************************)")
    out.append("(* Reference levels of the ten shipped layouts, from the national /        *)")
    out.append("(* ergonomic standards (see tools/gen_layoutref.py for sources and the      *)")
    out.append("(* readable Unicode form).  RefLevels[l][k] = <<base, shift, altgr>>, each  *)")
    out.append("(* a SET of acceptable code points - a singleton almost everywhere; two     *)")
    out.append("(* elements where published standards differ (UK AltGr+`: solid or broken   *)")
    out.append("(* bar; JIS Shift+^: overline (OADG 109) or tilde (109A); AZERTY Shift+     *)")
    out.append("(* superscript-two; German numpad decimal).  An empty AltGr set means the   *)")
    out.append("(* standard assigns no AltGr character to that key.  One cell is pinned to  *)")
    out.append("(* the shipped value and flagged unverified: AZERTY AltGr+^ (caron, 711).   *)")
    out.append("(***************************************************************************)")
    out.append("EXTENDS Integers, Sequences, FiniteSets, KeyCodes, TLC   \\* TLC for :> and @@")
    out.append("")
    out.append("LayoutNames == <<" + ", ".join('"%s"' % l for l in ORDER) + ">>   \\* AnyLayout variant order")
    out.append("Layouts == { LayoutNames[i] : i \\in 1..Len(LayoutNames) }")
    out.append("")
    out.append("MainBlock(l) == CASE " + "\n                  [] ".join(
        'l = "%s" -> %s' % (l, BOARD[LAYOUTS[l][0]]) for l in ORDER))
    out.append("")
    out.append("DecimalSep(l) == CASE " + " [] ".join('l = "%s" -> %s' % (l, cps(v)) for l, v in DECIMAL.items())
               + " [] OTHER -> {46}")
    out.append("")
    for l in ORDER:
        board, tab = LAYOUTS[l]
        keys = {"ANSI": ANSI, "ISO": ISO, "JIS": JIS}[board]
        assert set(tab) == set(keys), (l, set(tab) ^ set(keys))
        out.append("Ref_%s ==" % l)
        lines = []
        for k in keys:
            b, s, a = tab[k]
            lines.append('  "%s" :> <<%s, %s, %s>>' % (k, cps(b), cps(s), cps(a)))
        out.append("  (" + " @@\n   ".join(x.strip() for x in lines) + ")")
        out.append("")
    out.append("RefLevels == " + " @@\n             ".join('("%s" :> Ref_%s)' % (l, l) for l in ORDER))
    out.append("")
    out.append("RefBase(l, k) == RefLevels[l][k][1]")
    out.append("RefShift(l, k) == RefLevels[l][k][2]")
    out.append("RefAltGr(l, k) == RefLevels[l][k][3]")
    out.append("(* cells not attributable to a published standard offline (pinned to the shipped value) *)")
    out.append('Unverified == { <<"Azerty", "Oem4", "altgr">> }')
    out.append("")
    out.append("ASSUME RefWellFormed ==")
    out.append("  /\\ Cardinality(Layouts) = 10")
    out.append("  /\\ \\A l \\in Layouts : DOMAIN RefLevels[l] = MainBlock(l)")
    out.append("  /\\ \\A l \\in Layouts : \\A k \\in MainBlock(l) : RefBase(l, k) # {} /\\ RefShift(l, k) # {}")
    out.append("=============================================================================")
    path = os.path.join(os.path.dirname(os.path.dirname(os.path.abspath(__file__))), "spec", "LayoutRef.tla")
    open(path, "w").write("\n".join(out) + "\n")
    print("wrote", path)


main()
