#!/usr/bin/env python3
"""Import sub-agent mutants from /tmp/wt/<PID>/out/mutant<N> into /verif/seeded/<PID>-m<N>/ after
re-verifying each one in a scratch worktree (tools/verify_mutant.sh)."""
import json, os, shutil, subprocess, sys, glob, re
V = os.path.dirname(os.path.dirname(os.path.abspath(__file__)))
for d in sorted(glob.glob("/tmp/wt/C*/out/mutant*") + glob.glob("/tmp/wt2/C*/out/mutant*") + glob.glob("/tmp/wt4/C*/out/mutant*")):
    pid = d.split("/")[3]; n = re.search(r"mutant(\d+)", d).group(1)
    wave2 = d.startswith("/tmp/wt2/") or d.startswith("/tmp/wt4/")
    dst = os.path.join(V, "seeded", ("%s-w3m%s" if d.startswith("/tmp/wt4/") else "%s-w2m%s" if wave2 else "%s-m%s") % (pid, n))
    if os.path.exists(os.path.join(dst, "meta.json")) and "--force" not in sys.argv:
        continue
    if not os.path.exists(os.path.join(d, "patch.diff")) or not os.path.exists(os.path.join(d, "demo.rs")):
        print("incomplete", d); continue
    p = subprocess.run([os.path.join(V, "tools/verify_mutant.sh"), d], stdout=subprocess.PIPE, text=True)
    try:
        res = json.loads(p.stdout.strip().splitlines()[-1])
    except Exception:
        print("verify failed", d, p.stdout); continue
    ok = res.get("clean_demo_ok") == 1 and "ok. 32 passed" in res.get("suite_with_mutant", "") and "FAILED" in res.get("demo_with_mutant", "")
    print(pid, n, "CONFIRMED" if ok else "REJECTED", res)
    if not ok:
        continue
    os.makedirs(dst, exist_ok=True)
    shutil.copy(os.path.join(d, "patch.diff"), dst); shutil.copy(os.path.join(d, "demo.rs"), dst)
    notes = open(os.path.join(d, "notes.md")).read() if os.path.exists(os.path.join(d, "notes.md")) else ""
    open(os.path.join(dst, "notes.md"), "w").write(notes)
    meta = {"property": pid, "mutant": int(n), "source": "independent sub-agent given only the property text and a scratch worktree" + (" (third round: asked for API corners and cooperating sites, told what had been tried)" if d.startswith("/tmp/wt4/") else " (second round: asked for history-dependent / harder-to-detect changes)" if wave2 else ""),
            "needs_to_manifest": notes.strip().splitlines()[:12],
            "confirmed_by": "tools/verify_mutant.sh in a scratch worktree (removed afterwards)",
            "ran": {"cargo test --offline --test demo on clean tree": "ok",
                    "cargo test --offline --lib with patch": res["suite_with_mutant"],
                    "cargo test --offline --test demo with patch": res["demo_with_mutant"]}}
    json.dump(meta, open(os.path.join(dst, "meta.json"), "w"), indent=1)
