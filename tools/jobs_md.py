#!/usr/bin/env python3
"""Render the property -> jobs map of lib/pkverif.py as markdown (DESIGN.md section 0.6)."""
import os, sys
V = os.path.dirname(os.path.dirname(os.path.abspath(__file__)))
sys.path.insert(0, os.path.join(V, "lib"))
import pkverif
def kind(j):
    s = pkverif.JOBS[j]
    if s["kind"] == "tlc":
        m = s["module"]
        if m.startswith("MC_") or m in ("Link", "LinkScan"): return "spec"
        if m.startswith("Trace"): return "V"
        if "model:table" in str(s.get("env", {})): return "spec"
        if m in ("Conf_Layouts", "Conf_Words", "Conf_Preds", "Conf_EventLayouts", "Conf_Isolation"): return "T"
        return "G"
    return {"replay": "R", "selfreplay": "R", "world": "R", "link": "R", "tlapm": "proof"}[s["kind"]]
print("| property | quick jobs (mechanism) | thorough tier replaces / adds |")
print("|---|---|---|")
for p in sorted(pkverif.PROPS):
    q = pkverif.PROPS[p]["quick"]
    t = pkverif.PROPS[p].get("thorough") or q
    extra = [j for j in t if j not in q]
    print("| %s | %s | %s |" % (p, ", ".join("`%s` (%s)" % (j, kind(j)) for j in q),
                               ", ".join("`%s` (%s)" % (j, kind(j)) for j in extra) or "same (already exhaustive)"))
