#!/usr/bin/env python3
"""Judge each seeded mutant with the claimed checks and record which checks flag it.

Default mode works on SCRATCH COPIES of /repo and of the harness under /tmp (removed afterwards), so
that /repo, the registered evidence and the main cache are never touched and several mutants can be
judged in parallel:   tools/run_seeded.py [--jobs=3] [--props=C01,C02] [--tier=quick] [mutant-id ...]
With --inplace the patch is applied to /repo itself (git apply / git checkout -- .), as the task
brief prescribes for a final confirmation."""
import json, os, shutil, subprocess, sys, glob, time
from concurrent.futures import ThreadPoolExecutor
V = os.path.dirname(os.path.dirname(os.path.abspath(__file__)))
sys.path.insert(0, os.path.join(V, "lib"))
import pkverif
args = [a for a in sys.argv[1:] if not a.startswith("--")]
props = sorted(pkverif.PROPS)
tier, jobs, inplace, sdir = "quick", 3, False, "seeded"
for a in sys.argv[1:]:
    if a.startswith("--props="): props = a.split("=")[1].split(",")
    if a.startswith("--tier="): tier = a.split("=")[1]
    if a.startswith("--jobs="): jobs = int(a.split("=")[1])
    if a == "--inplace": inplace = True
    if a.startswith("--dir="): sdir = a.split("=")[1]     # e.g. --dir=benign (behaviour-preserving refactors: nothing may be flagged)
muts = args or sorted(os.path.basename(os.path.dirname(d)) for d in glob.glob(os.path.join(V, sdir, "*", "patch.diff")))
resf = os.path.join(V, sdir, "RESULTS.json")
for a in sys.argv[1:]:
    if a.startswith("--results="): resf = a.split("=", 1)[1]     # separate file when two runs are in progress
results = json.load(open(resf)) if os.path.exists(resf) else {}

# snapshot of the machinery (spec, lib, bin, harness sources) so that edits made to /verif while a long
# matrix run is in progress cannot change what a mutant is judged with
SNAP = V
if not inplace:
    SNAP = "/tmp/seedrun/verif-snapshot-%d" % os.getpid()
    shutil.rmtree(SNAP, ignore_errors=True)
    shutil.copytree(V, SNAP, ignore=shutil.ignore_patterns("work", ".git", "target", "replays", "evidence"))


def run_checks(env, row):
    for p in props:
        r = subprocess.run([os.path.join(SNAP, "bin/check"), p, tier], stdout=subprocess.PIPE, stderr=subprocess.PIPE,
                           text=True, cwd=SNAP, env=env)
        nv = sum(1 for l in r.stdout.splitlines() if l.startswith("VIOLATION"))
        row[p] = {"exit": r.returncode, "violations": nv,
                  "first": next((l for l in r.stdout.splitlines() if l.startswith("  case:")), "")[:300]}
        if r.returncode == 2:
            row[p]["err"] = r.stderr[-400:]

def one(m):
    patch = os.path.join(V, sdir, m, "patch.diff")
    row = {}
    if inplace:
        assert subprocess.run(["git", "-C", "/repo", "status", "--porcelain", "--untracked-files=no"],
                              stdout=subprocess.PIPE, text=True).stdout.strip() == "", "/repo not clean"
        if subprocess.run(["git", "-C", "/repo", "apply", "--check", patch]).returncode != 0:
            return m, {"_apply": "failed"}
        subprocess.check_call(["git", "-C", "/repo", "apply", patch])
        try:
            run_checks(dict(os.environ), row)
        finally:
            subprocess.check_call(["git", "-C", "/repo", "checkout", "--", "."])
        return m, row
    S = "/tmp/seedrun/%s-%s-%d" % (sdir, m, os.getpid())
    shutil.rmtree(S, ignore_errors=True)
    os.makedirs(S)
    try:
        subprocess.check_call(["git", "-C", "/repo", "worktree", "add", "-q", "--detach", S + "/repo", "HEAD"])
        if subprocess.run(["git", "-C", S + "/repo", "apply", patch]).returncode != 0:
            return m, {"_apply": "failed"}
        shutil.copytree(os.path.join(SNAP, "harness"), S + "/harness", ignore=shutil.ignore_patterns("target"))
        ct = open(S + "/harness/Cargo.toml").read().replace('path = "/repo"', 'path = "%s/repo"' % S)
        open(S + "/harness/Cargo.toml", "w").write(ct)
        env = dict(os.environ, PKV_REPO=S + "/repo", PKV_HARNESS=S + "/harness", PKV_WORK=S + "/work",
                   PKV_EVID=S + "/evidence", PKV_REPLAYS=S + "/replays")
        # share the spec-only job cache
        os.makedirs(S + "/work/cache", exist_ok=True)
        for d in glob.glob(os.path.join(V, "work", "cache", "spec-*")):
            shutil.copytree(d, os.path.join(S, "work", "cache", os.path.basename(d)))
        run_checks(env, row)
    finally:
        subprocess.run(["git", "-C", "/repo", "worktree", "remove", "--force", S + "/repo"])
        shutil.rmtree(S, ignore_errors=True)
    return m, row

with ThreadPoolExecutor(max_workers=1 if inplace else jobs) as ex:
    for m, row in ex.map(one, muts):
        results.setdefault(m, {}).update(row)
        flagged = [p for p in props if row.get(p, {}).get("exit") == 1]
        errs = [p for p in props if row.get(p, {}).get("exit") == 2]
        print(m, "flagged by", flagged, ("TOOL-ERRORS " + str(errs)) if errs else "", row.get("_apply", ""), flush=True)
        json.dump(results, open(resf, "w"), indent=1, sort_keys=True)
subprocess.run(["git", "-C", "/repo", "worktree", "prune"])
if SNAP != V:
    shutil.rmtree(SNAP, ignore_errors=True)
