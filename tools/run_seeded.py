#!/usr/bin/env python3
"""Apply each seeded mutant to /repo, run the claimed checks (quick), revert; record which checks
flag it.  usage: tools/run_seeded.py [mutant-id ...] [--props C01,C02] [--tier quick]"""
import json, os, subprocess, sys, glob, time
V = os.path.dirname(os.path.dirname(os.path.abspath(__file__)))
sys.path.insert(0, os.path.join(V, "lib"))
import pkverif
args = [a for a in sys.argv[1:] if not a.startswith("--")]
props = sorted(pkverif.PROPS)
tier = "quick"
for a in sys.argv[1:]:
    if a.startswith("--props="): props = a.split("=")[1].split(",")
    if a.startswith("--tier="): tier = a.split("=")[1]
muts = args or sorted(os.path.basename(d) for d in glob.glob(os.path.join(V, "seeded", "C*-m*")))
resf = os.path.join(V, "seeded", "RESULTS.json")
results = json.load(open(resf)) if os.path.exists(resf) else {}
assert subprocess.run(["git", "-C", "/repo", "status", "--porcelain", "--untracked-files=no"], stdout=subprocess.PIPE, text=True).stdout.strip() == "", "/repo not clean"
for m in muts:
    patch = os.path.join(V, "seeded", m, "patch.diff")
    if subprocess.run(["git", "-C", "/repo", "apply", "--check", patch]).returncode != 0:
        print(m, "patch does not apply to current /repo (base changed?)"); results.setdefault(m, {})["_apply"] = "failed"; continue
    subprocess.check_call(["git", "-C", "/repo", "apply", patch])
    try:
        row = results.setdefault(m, {})
        row.pop("_apply", None)
        for p in props:
            t = time.time()
            r = subprocess.run([os.path.join(V, "bin/check"), p, tier], stdout=subprocess.PIPE, stderr=subprocess.PIPE, text=True, cwd=V)
            nv = sum(1 for l in r.stdout.splitlines() if l.startswith("VIOLATION"))
            row[p] = {"exit": r.returncode, "violations": nv, "first": next((l for l in r.stdout.splitlines() if l.startswith("  case:")), "")[:300]}
            if r.returncode == 2:
                row[p]["err"] = r.stderr[-300:]
        flagged = [p for p in props if row[p]["exit"] == 1]
        errs = [p for p in props if row[p]["exit"] == 2]
        print(m, "flagged by", flagged, ("TOOL-ERRORS " + str(errs)) if errs else "", flush=True)
    finally:
        subprocess.check_call(["git", "-C", "/repo", "checkout", "--", "."])
    json.dump(results, open(resf, "w"), indent=1, sort_keys=True)
# restore evidence for the clean tree is the caller's job (run bin/check --all afterwards)
