#!/usr/bin/env python3
"""meta.json for fourth-round mutants: tools/mk_meta_w4.py <seeded-id> <verify-json-file>"""
import json, os, sys
V = os.path.dirname(os.path.dirname(os.path.abspath(__file__)))
m, vf = sys.argv[1], sys.argv[2]
res = json.loads(open(vf).read().strip().splitlines()[-1])
ok = res.get("clean_demo_ok") == 1 and "ok. 32 passed" in res.get("suite_with_mutant", "") and "FAILED" in res.get("demo_with_mutant", "")
assert ok, res
dst = os.path.join(V, "seeded", m)
notes = open(os.path.join(dst, "notes.md")).read()
meta = {"property": m.split("-")[0], "mutant": int(m.split("m")[-1]),
        "source": "independent sub-agent given only the property text and a scratch worktree (fourth round, next session: asked for rare inputs, histories, rarely used entry points, cooperating sites)",
        "needs_to_manifest": notes.strip().splitlines()[:12],
        "confirmed_by": "tools/verify_mutant.sh in a scratch worktree (removed afterwards)",
        "ran": {"cargo test --offline --test demo on clean tree": "ok",
                "cargo test --offline --lib with patch": res["suite_with_mutant"],
                "cargo test --offline --test demo with patch": res["demo_with_mutant"]}}
json.dump(meta, open(os.path.join(dst, "meta.json"), "w"), indent=1)
print(m, "meta written")
