#!/bin/bash
# verify_mutant.sh <dir with patch.diff, demo.rs> : confirm in a scratch worktree that
#  (1) the demo passes on the clean tree, (2) with the patch the 32 existing tests pass,
#  (3) with the patch the demo fails.  Prints a JSON line. Removes the scratch worktree.
set -u
D=$(realpath "$1"); W=/tmp/wt/verify.$$
git -C /repo worktree add -q --detach "$W" HEAD || exit 2
cd "$W"; mkdir -p tests; cp "$D/demo.rs" tests/demo.rs
clean_demo=$(cargo test --offline --test demo 2>&1 | grep -c "test result: ok")
git apply "$D/patch.diff" || { echo '{"error":"patch does not apply"}'; cd /; git -C /repo worktree remove --force "$W"; exit 2; }
suite=$(cargo test --offline --lib 2>&1 | grep "test result" | head -1)
mut_demo=$(cargo test --offline --test demo 2>&1 | grep "test result" | head -1)
cd /; git -C /repo worktree remove --force "$W"
echo "{\"clean_demo_ok\": $clean_demo, \"suite_with_mutant\": \"$suite\", \"demo_with_mutant\": \"$mut_demo\"}"
