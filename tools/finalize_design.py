#!/usr/bin/env python3
"""Regenerate the generated parts of DESIGN.md (between <!-- BEGIN x --> / <!-- END x --> markers):
the seeded-change detection matrix and the property -> jobs table."""
import os, re, subprocess, sys
V = os.path.dirname(os.path.dirname(os.path.abspath(__file__)))
p = os.path.join(V, "DESIGN.md")
s = open(p).read()
def gen(cmd):
    return subprocess.run([sys.executable, os.path.join(V, "tools", cmd)], stdout=subprocess.PIPE, text=True).stdout
for name, cmd in (("MATRIX", "matrix_md.py"), ("JOBS", "jobs_md.py")):
    b, e = "<!-- BEGIN %s -->" % name, "<!-- END %s -->" % name
    if b in s and e in s:
        s = s[:s.index(b) + len(b)] + "\n" + gen(cmd) + s[s.index(e):]
open(p, "w").write(s)
print("DESIGN.md regenerated")
