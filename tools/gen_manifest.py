#!/usr/bin/env python3
"""Regenerate MANIFEST.json from the property registry in lib/pkverif.py (developer tool)."""
import json, os, sys
sys.path.insert(0, os.path.join(os.path.dirname(os.path.abspath(__file__)), "..", "lib"))
import pkverif

TEXT = {
 "C01": ("TLC explores the Set 2 decoder spec exhaustively (6 contexts x 256 bytes) against the reference table, and the synchronous product of that spec with the reachable graph extracted from the real ScancodeSet2 and from Keyboard::add_byte: I/O-trace equivalence for byte streams of every length.", "G: reachable-graph product exploration in TLC"),
 "C02": ("As C01 for Set 1 (3 contexts x 256 bytes), on ScancodeSet1 and Keyboard<_, ScancodeSet1>::add_byte. Known finding F1 (JIS keys filed under E0) is listed per transition.", "G: reachable-graph product exploration in TLC"),
 "C05": ("The frame rule is stated in Ps2Frame.tla and its consequences (accept-iff, error priority, round trip, single and double flips) are evaluated by TLC over all 2048 frames; the real add_word (Ps2Decoder and Keyboard) is extracted on all 65 536 words and every record is judged by TLC against CheckWord.", "T: exhaustive function table judged by TLC"),
 "C06": ("TLC checks the shift-register spec (2047 states, refinement between the abstract bit sequence and the stored register/count pair) and the synchronous product with the real Ps2Decoder's reachable graph over {bit0, bit1, clear}: every frame after every possible stream.", "G: reachable-graph product exploration in TLC"),
 "C07": ("Resync and bounded none-runs are action properties/invariants of the decoder specs, and the same predicates are evaluated by TLC on the automata extracted from the real decoders (every reachable state x 256 bytes).", "G: predicates over the extracted reachable graph in TLC"),
 "C13": ("The i8042 translation table (Xlate8042.tla) is applied by TLC to the automata extracted from both real decoders: forward (every Set 2 sequence that decodes to a key) and converse (every Set 1 sequence against its preimages), all prefixes, make and break.", "G: relational predicate over two extracted graphs in TLC"),
 "C19": ("Injectivity of complete sequences and make/break pairing are evaluated by TLC on the automata extracted from the real decoders, with no reference table.", "G: predicates over the extracted reachable graph in TLC"),
}

LAYOUT_NOTE = " Judged by TLC on the complete function table extracted from the real layouts (30 layout objects x 124 keys x 512 modifier sets x 2 modes = 3 809 280 cells), one TLC state per (object, key, mode) row."
TEXT.update({
 "C03": ("Reference levels from the national standards (LayoutRef.tla, sets of acceptable code points) against every cell that selects the base, shift or AltGr level." + LAYOUT_NOTE, "T: exhaustive function table judged by TLC"),
 "C09": ("Ctrl+letter rule relative to the layout's own unshifted output; Map vs Ignore equality elsewhere; Ctrl inert in Ignore mode." + LAYOUT_NOTE, "T: exhaustive function table judged by TLC"),
 "C10": ("CapsLock = Shift inversion on case pairs (all left/right Shift representatives), no effect elsewhere." + LAYOUT_NOTE, "T: exhaustive function table judged by TLC"),
 "C11": ("Out(m) = Out(Rep(Abs(m))) for all 512 modifier sets of every row." + LAYOUT_NOTE, "T: exhaustive function table judged by TLC"),
 "C12": ("For each layout and mode, every character 32..126 is produced by some key at the unshifted, shifted or AltGr level (existential search by TLC over the extracted table).", "T: exhaustive function table judged by TLC"),
 "C15": ("Numpad/NumLock rule, operators, NumpadEnter = Return cell by cell, decimal separator, six editing keys." + LAYOUT_NOTE, "T: exhaustive function table judged by TLC"),
 "C16": ("The 52 character-less keys are raw in every cell of all 30 layout objects; any raw output names the pressed key or its navigation alias." + LAYOUT_NOTE, "T: exhaustive function table judged by TLC"),
 "C17": ("Every AnyLayout and &AnyLayout row equals the wrapped layout's row cell by cell; the ten plain tables are pairwise distinct." + LAYOUT_NOTE, "T: exhaustive function table judged by TLC"),
})

TEXT.update({
 "C04": ("MC_Event: history variables ('most recent event was a press', lock parities with Pause presses not counted) equal the decoder's modifier word in all 512 x 2 x 2 reachable states under the full event alphabet (invariant + frame action properties). Conformance: the synchronous product with the reachable graph of the real EventDecoder (modifiers observed through what the recording layout is shown) and of Keyboard (get_modifiers compared by value): all 770 048 + 382 976 transitions.", "G: reachable-graph product exploration in TLC"),
 "C14": ("EventDecoder.tla is parameterised by an uninterpreted layout; OnePerPress, SilentOtherwise, ModifierPressIsRawSelf and LiveArguments are action properties. Conformance: the real EventDecoder / Keyboard with a recording layout - result and consulted (layout, key, modifiers, mode) must equal the spec's for every input in every product state, with set_ctrl_handling and change_layout in the alphabet.", "G: reachable-graph product exploration in TLC"),
 "C08": ("No spec action can produce a panic result, so an observed panic can never be matched. The union of all extractions (every input in every reachable state of frame, both scancode decoders, event decoder, Keyboard; all 65 536 words; all 3.8M layout cells on 30 objects) runs in an overflow-checked, debug-assertion build under catch_unwind; TLC reports each panic observation.", "G+T: all extractions, panic observations judged by TLC"),
})

TEXT.update({
 "C18": ("Keyboard.tla is the WIRING of three stage automata given as parameters. Spec side: instantiated with the stage specifications, TLC checks the isolation action properties over the full frame (2047) x scancode (6/3) product. Code side: instantiated with the automata extracted from the real, separately used Ps2Decoder / ScancodeSet / EventDecoder, TLC explores the synchronous product with the reachable graph of the real composite Keyboard over an alphabet mixing all entry points (49 128 composite states quick, 196 512 thorough) and validates recorded random interleavings with line noise (40k calls per set quick, 1.5M thorough), including opaque per-stage ids that must not change for stages a call does not feed.", "G+V: composite reachable-graph product + trace validation in TLC"),
})

TEXT["C13"] = (TEXT["C13"][0] + " End to end: World.tla (physical keyboard with typematic and the compound Pause/PrintScreen sequences, i8042 translation, two hosts) is model-checked for set independence, and behaviours generated by TLC (-simulate) are replayed into two real Keyboards (Set 2 raw / Set 1 translated) which must agree with each other and with the specification step by step.", TEXT["C13"][1] + " + end-to-end behaviour replay")
TEXT["C03"] = (TEXT["C03"][0] + " The end-to-end clause (from scancodes) is exercised by the World.tla behaviour replay with real layouts.", TEXT["C03"][1])
TEXT["C18"] = (TEXT["C18"][0] + " A per-operation sweep applies every input of every entry point (2681 operations) in every sampled frame x scancode x event context and TLC requires that only fed stages change and that no result depends on a stage the call does not read.", TEXT["C18"][1])

TEXT["C14"] = (TEXT["C14"][0] + " Also: objects constructed with HandleControl::Ignore; Conf_EventLayouts - EventDecoder<AnyLayout> with the ten real layouts in all 512 x 2 states x 124 keys must return exactly the layout table's cell (1.27M cells); spec-mode trace validation of the repository's own scenarios, random / typist / pipeline drivers and ALL sequences of 3 (thorough: 4) realistic actions.", TEXT["C14"][1] + " + T + V")
TEXT["C04"] = (TEXT["C04"][0] + " Plus replay of the TLC-exported event automaton (all input pairs from sampled / all states, long periodic streams) and spec-mode trace validation including all sequences of 3 (4) realistic actions.", TEXT["C04"][1] + " + R + V")
TEXT["C19"] = (TEXT["C19"][0] + " The predicates are evaluated from the initial state and from every behaviourally distinct state reachable after one complete sequence.", TEXT["C19"][1])
TEXT["C13"] = (TEXT["C13"][0] + " Conf_Xlate explores the synchronous product of the two extracted automata under all histories of key actions.", TEXT["C13"][1])
TEXT["C07"] = (TEXT["C07"][0] + " 'Back in the initial condition' is behavioural (Moore class of the extracted automaton), and the extracted automaton itself is replayed into the real decoder over all 2^24 (thorough: 2^32) streams plus long periodic streams.", TEXT["C07"][1] + " + R (self-replay)")
TEXT["C08"] = (TEXT["C08"][0] + " Includes the stages built through Default, the event decoder with the real layouts, and the long periodic replay streams (hidden counters).", TEXT["C08"][1] + " + R")
TEXT["C06"] = (TEXT["C06"][0] + " Link.tla adds the wire (bit flips, lost clock pulses, host timeout-clear) with a hazard configuration in which TLC must find the violation; the exported frame automaton is replayed over all ordered frame pairs, clear() from every partial state, and long periodic bit streams.", TEXT["C06"][1] + " + R")
TEXT["C01"] = (TEXT["C01"][0] + " Plus replay of the TLC-exported table over all 2^24 (thorough 2^32) byte streams and long periodic streams, the Default-constructed decoder, and spec-mode trace validation through Keyboard (bytes interleaved with the events they produce).", TEXT["C01"][1] + " + R + V")
TEXT["C02"] = (TEXT["C02"][0] + " Plus replay of the TLC-exported table over all 2^24 (thorough 2^32) byte streams, the Default-constructed decoder and spec-mode trace validation.", TEXT["C02"][1] + " + R + V")

LINK = " LinkScan.tla (keyboard with held keys -> faulty wire -> frame stage -> Set 2 stage -> host's held set) generates seeded -simulate behaviours whose every delivered bit and timeout-clear() is replayed into a real Keyboard and into the real Ps2Decoder + ScancodeSet2 used separately (pkv replay-link)."
TEXT["C01"] = (TEXT["C01"][0] + LINK, TEXT["C01"][1])
TEXT["C06"] = (TEXT["C06"][0] + LINK, TEXT["C06"][1])
TEXT["C18"] = (TEXT["C18"][0] + LINK, TEXT["C18"][1] + " + R (spec behaviours replayed bit by bit)")
TEXT["C07"] = (TEXT["C07"][0] + " LinkScan.tla checks resynchronisation from the wire: after any line fault one untouched key sequence brings the scancode context back to Start, and each fault costs at most three keys of host/keyboard disagreement (TLC, up to 1.17M states), with a hazard configuration in which TLC must find the phantom key.", TEXT["C07"][1])

def main():
    checks = []
    for pid in sorted(pkverif.PROPS):
        text, tech = TEXT.get(pid, ("see DESIGN.md", "TLC"))
        checks.append({
            "property_id": pid,
            "quick_cmd": "bin/check %s quick" % pid,
            "thorough_cmd": "bin/check %s thorough" % pid,
            "evidence_file": "evidence/%s.json" % pid,
            "replay_cmd_template": "bin/check --replay {path}",
            "engine": "tlc+pkv",
            "level_claimed": {"category": "model_checking", "text": text, "design_ref": "DESIGN.md section 5 (%s)" % pid},
            "level_note": "Trusted: TLC 1.8.0 + CommunityModules Json/IOUtils; rustc/cargo; the observer harness (loops, catch_unwind, JSON printing); equal derived-Debug renderings mean equal object state (hook verif-hooks); hand-transcribed reference tables in spec/ (cross-checked against each other by TLC).",
            "technique": tech,
        })
    claimed = {c["property_id"] for c in checks}
    na = []
    reasons = {
        "C20": "compile-time property (const-evaluability and auto-traits are decided by rustc's const/type checkers; there is no state, transition or run-time behaviour for a TLA+ model or a recorded trace to describe) - see DESIGN.md section 5/C20",
    }
    import json as _j
    for l in open(os.path.join(pkverif.VERIF, "properties.jsonl")):
        pid = _j.loads(l)["id"]
        if pid not in claimed:
            na.append({"property_id": pid, "reason": reasons.get(pid, "check not built yet (work in progress; will be claimed when its specification and conformance binding exist)")})
    m = {
        "version": 1,
        "setup_cmd": "bin/check --setup",
        "hooks": {
            "guard": "verif-hooks",
            "enable": "cargo feature `verif-hooks` of pc-keyboard, enabled by the harness dependency line in harness/Cargo.toml (pc-keyboard = { path = \"/repo\", features = [\"verif-hooks\"] })",
            "baseline_off_cmd": "cd /repo && cargo test --workspace --no-fail-fast --offline",
            "source_commits": ["fa0381e"],
            "add_only": True,
        },
        "engines": [{"name": "tlc+pkv", "path": "bin/check", "serves_properties": sorted(claimed),
                     "kind_free_text": "explicit TLA+ specification (spec/*.tla) checked by TLC; Rust observer harness (harness/) extracts complete reachable graphs / function tables / traces from the real code, TLC judges them against the specification"}],
        "checks": checks,
        "not_applicable": na,
        "notes": "All checks rebuild the harness against /repo's working tree, re-extract, and cache per tree hash under work/cache/.",
    }
    with open(os.path.join(pkverif.VERIF, "MANIFEST.json"), "w") as f:
        json.dump(m, f, indent=1)
    print("claimed:", sorted(claimed))

main()
