//! (G) reachable-graph extraction: BFS over the real object's states (opaque ids) x the
//! complete input alphabet. A state is re-created by replaying its BFS access sequence on a
//! fresh object, so no Clone is needed.
use crate::machines::*;
use pc_keyboard::{HandleControl, KeyState};
use serde_json::{json, Value};
use std::collections::HashMap;
use std::io::Write;

pub fn alphabet(name: &str) -> Vec<Input> {
    let mut v = Vec::new();
    let bits = |v: &mut Vec<Input>| {
        v.push(Input::Bit(false));
        v.push(Input::Bit(true));
        v.push(Input::Clear);
    };
    let bytes = |v: &mut Vec<Input>| {
        for b in 0..=255u8 {
            v.push(Input::Byte(b));
        }
    };
    let keys = |v: &mut Vec<Input>| {
        for k in crate::keys::ALL_KEYS {
            for s in [KeyState::Down, KeyState::Up, KeyState::SingleShot] {
                v.push(Input::Key(k, s));
            }
        }
    };
    let modes = |v: &mut Vec<Input>| {
        v.push(Input::Mode(HandleControl::MapLettersToUnicode));
        v.push(Input::Mode(HandleControl::Ignore));
    };
    match name {
        "bits" => bits(&mut v),
        "bytes" => bytes(&mut v),
        "events" => {
            keys(&mut v);
            modes(&mut v);
            v.push(Input::Layout(0));
            v.push(Input::Layout(1));
        }
        "kbevents" => {
            keys(&mut v);
            modes(&mut v);
        }
        "anyevents" => {
            keys(&mut v);
            modes(&mut v);
            for l in 0..10u8 {
                v.push(Input::Layout(l));
            }
        }
        "bitsbytes" => {
            bits(&mut v);
        }
        // composite alphabets for C18: every entry point of Keyboard, small per-stage alphabets
        "mixedq" | "mixed" => {
            let full = name == "mixed";
            bits(&mut v);
            let ys: &[u8] = if full {
                &[0xE0, 0xE1, 0xF0, 0x14, 0x12, 0x77, 0x1C, 0x00, 0xAA, 0x02]
            } else {
                &[0xE0, 0xF0, 0x1C, 0x02]
            };
            for y in ys {
                v.push(Input::Byte(*y));
            }
            let enc = |b: u8| -> u16 {
                let par = if b.count_ones() % 2 == 0 { 1u16 } else { 0 };
                ((b as u16) << 1) | (par << 9) | (1 << 10)
            };
            let ws: Vec<u16> = if full {
                ys.iter().map(|y| enc(*y)).collect()
            } else {
                vec![enc(0xE0), enc(0x1C)]
            };
            for w in ws {
                v.push(Input::Word(w));
            }
            v.push(Input::Word(enc(0x1C) | 1)); // bad start bit
            v.push(Input::Word(enc(0x1C) & !(1 << 10))); // bad stop bit
            v.push(Input::Word(enc(0x1C) ^ (1 << 9))); // parity error
            use pc_keyboard::KeyCode as K;
            v.push(Input::Key(K::LShift, KeyState::Down));
            v.push(Input::Key(K::LShift, KeyState::Up));
            if full {
                v.push(Input::Key(K::A, KeyState::Down));
                v.push(Input::Key(K::NumpadLock, KeyState::Down));
                v.push(Input::Key(K::RControl2, KeyState::Down));
                v.push(Input::Key(K::RControl2, KeyState::Up));
            }
            modes(&mut v);
        }
        _ => {
            eprintln!("pkv: unknown alphabet {}", name);
            std::process::exit(2)
        }
    }
    v
}

fn rebuild(comp: &str, alpha: &[Input], access: &[usize]) -> Box<dyn Machine> {
    let mut m = make(comp);
    for &a in access {
        // cannot panic: this prefix was executed without panic when the state was discovered
        let _ = apply_caught(&mut m, &alpha[a]);
    }
    m
}

/// probe sequences (alphabet indices) whose results identify a state behaviourally, per alphabet
fn probes(alpha_name: &str, alpha: &[Input]) -> Option<Vec<Vec<usize>>> {
    match alpha_name {
        // the frame stage reveals its state only at the 11th bit: every continuation of 11 bits
        // ... and, because a composite object keeps state that only shows after the framing has been
        // reset, the same continuations after clear() (alphabet index 2)
        "bits" => {
            let mut v: Vec<Vec<usize>> = (0..2048usize).map(|v| (0..11).map(|i| (v >> i) & 1).collect()).collect();
            for w in 0..2048usize {
                let mut p = vec![2usize];
                p.extend((0..11).map(|i| (w >> i) & 1));
                v.push(p);
            }
            Some(v)
        }
        // scancode decoders: every pair of bytes
        "bytes" => Some((0..65536usize).map(|v| vec![v & 255, v >> 8]).collect()),
        // event stage: the recording layout shows modifiers, mode and layout on any plain key press, so a
        // few dozen single inputs identify the state: both events of every modifier / lock key, a letter, a
        // digit, a numpad key, every third remaining input, and all the non-key inputs
        "events" | "kbevents" | "anyevents" => {
            use pc_keyboard::KeyCode as K;
            let special = [K::LShift, K::RShift, K::LControl, K::RControl, K::LAlt, K::RAltGr, K::RControl2, K::CapsLock,
                           K::NumpadLock, K::A, K::Key3, K::Numpad7, K::PauseBreak, K::RAlt2];
            let mut v: Vec<Vec<usize>> = Vec::new();
            for (i, inp) in alpha.iter().enumerate() {
                let keep = match inp {
                    Input::Key(k, st) => special.contains(k) || (*st == KeyState::Down && (*k as u8) % 9 == 0),
                    _ => true,
                };
                if keep {
                    v.push(vec![i]);
                }
            }
            Some(v)
        }
        _ => None,
    }
}

fn signature(comp: &str, alpha: &[Input], access: &[usize], pr: &[Vec<usize>]) -> String {
    use std::hash::{Hash, Hasher};
    let mut h = std::collections::hash_map::DefaultHasher::new();
    // what the public getters show is part of the behaviour
    rebuild(comp, alpha, access).obs().to_string().hash(&mut h);
    for p in pr {
        let mut m = rebuild(comp, alpha, access);
        for &i in p {
            match apply_caught(&mut m, &alpha[i]) {
                Ok(s) => {
                    s.out.to_string().hash(&mut h);
                    s.query.to_string().hash(&mut h);
                    m.obs().to_string().hash(&mut h);
                }
                Err(msg) => {
                    ("panic", msg).hash(&mut h);
                    break;
                }
            }
        }
        0xFFu8.hash(&mut h);
    }
    format!("behaviour:{:016x}", h.finish())
}

/// Writes NDJSON, one record per state (1-based index `i`, BFS order):
/// {i, id, access:[alphabet indices, 1-based], obs, out:[..], q:[..], post:[state index or 0], cls}
/// post = 0 means the call panicked (no post-state). States beyond `cap` are listed with
/// `expanded:false` and empty out/post so an unbounded object still yields a finite file.
///
/// State identity is the object's Debug rendering. If that does not close within the cap - the
/// object has a field that keeps changing without influencing behaviour, e.g. a statistics counter
/// - the extraction is repeated with BEHAVIOURAL identity: two states are the same if every probe
/// sequence of the alphabet's probe set gives the same results. Every recorded transition is still
/// a real run of the real object (from the state's recorded access sequence), so a difference
/// found on such a graph is a real difference; what can be lost is a distinction deeper than the
/// probes, which the table replays cover independently of any notion of state identity.
pub fn extract(comp_arg: &str, alpha_name: &str, cap: usize, w: &mut dyn Write, alpha_out: Option<&mut dyn Write>) {
    // "<component>:lean" drops the long id / query / stage strings from the records
    let (comp, lean) = match comp_arg.strip_suffix(":lean") {
        Some(c) => (c, true),
        None => (comp_arg, false),
    };
    let alpha = alphabet(alpha_name);
    if let Some(aw) = alpha_out {
        let a: Vec<Value> = alpha.iter().map(|i| i.to_json()).collect();
        writeln!(aw, "{}", Value::Array(a)).unwrap();
    }
    let (mut recs, closed) = explore(comp, lean, &alpha, cap, None);
    let mut mode = "rendering";
    if !closed {
        if let Some(pr) = probes(alpha_name, &alpha) {
            let (r2, _c2) = explore(comp, lean, &alpha, cap, Some(&pr));
            recs = r2;
            mode = "behaviour";
        }
    }
    // an automaton obtained by behavioural merging is only used if it predicts the real object on
    // long pseudo-random walks; otherwise it is marked unfaithful and the checks treat it as inconclusive
    let faithful = mode == "rendering" || validate(comp, &alpha, &recs);
    let cls = moore_classes(&recs);
    for (i, mut rec) in recs.into_iter().enumerate() {
        rec["cls"] = json!(cls[i]);
        rec["faithful"] = json!(faithful);
        rec["idmode"] = json!(mode);
        writeln!(w, "{}", rec).unwrap();
    }
}

fn explore(comp: &str, lean: bool, alpha: &[Input], cap: usize, pr: Option<&Vec<Vec<usize>>>) -> (Vec<Value>, bool) {
    // identity of the state reached by `access` (rendering, or behavioural signature cached per rendering)
    let mut sig_cache: HashMap<String, String> = HashMap::new();
    let mut ident = |m: &Box<dyn Machine>, access: &[usize]| -> String {
        match pr {
            None => m.id(),
            Some(p) => {
                let r = m.id();
                if let Some(s) = sig_cache.get(&r) {
                    return s.clone();
                }
                let s = signature(comp, alpha, access, p);
                if sig_cache.len() < 200_000 {
                    sig_cache.insert(r, s.clone());
                }
                s
            }
        }
    };
    let m0 = make(comp);
    let id0 = ident(&m0, &[]);
    let mut ids: HashMap<String, usize> = HashMap::new();
    let mut states: Vec<(String, Vec<usize>)> = Vec::new();
    ids.insert(id0.clone(), 0);
    states.push((id0, Vec::new()));
    let mut recs: Vec<Value> = Vec::new();
    let mut next = 0usize;
    // in rendering mode give up early once the cap is clearly exceeded (the behavioural pass follows)
    while next < states.len() {
        if pr.is_none() && states.len() > cap + alpha.len() + 1 && probes_exist_hint(alpha) {
            return (recs, false);
        }
        let (id, access) = states[next].clone();
        // a composite object (no behavioural probe set) whose rendering does not close within the cap
        // cannot be decided on this graph anyway: stop expanding early, so that a state space that a
        // change has made unbounded does not produce a file of gigabytes
        let cap_eff = if pr.is_none() && !probes_exist_hint(alpha) && states.len() > cap { cap.min(20_000) } else { cap };
        let expanded = next < cap_eff;
        let base = rebuild(comp, alpha, &access);
        let obs = base.obs();
        let stage = base.stage_ids();
        let mut outs = Vec::with_capacity(alpha.len());
        let mut qs = Vec::with_capacity(alpha.len());
        let mut posts = Vec::with_capacity(alpha.len());
        if expanded {
            for (ai, inp) in alpha.iter().enumerate() {
                let mut m = rebuild(comp, alpha, &access);
                match apply_caught(&mut m, inp) {
                    Ok(step) => {
                        outs.push(step.out);
                        qs.push(step.query);
                        let mut acc = access.clone();
                        acc.push(ai);
                        let pid = ident(&m, &acc);
                        let idx = match ids.get(&pid) {
                            Some(&i) => i,
                            None => {
                                let i = states.len();
                                ids.insert(pid.clone(), i);
                                states.push((pid, acc));
                                i
                            }
                        };
                        posts.push(json!(idx + 1));
                    }
                    Err(msg) => {
                        outs.push(json!(["panic", msg]));
                        qs.push(json!(["noq"]));
                        posts.push(json!(0));
                    }
                }
            }
        }
        let acc1: Vec<usize> = access.iter().map(|a| a + 1).collect();
        let rec = if lean {
            json!({"i": next + 1, "access": acc1, "obs": obs, "expanded": expanded, "out": outs, "post": posts})
        } else {
            json!({
                "i": next + 1, "id": id, "access": acc1, "obs": obs, "expanded": expanded,
                "stage": stage.map(|s| json!(s)).unwrap_or(json!([])),
                "out": outs, "q": qs, "post": posts
            })
        };
        recs.push(rec);
        next += 1;
    }
    let closed = states.len() <= cap;
    (recs, closed)
}

/// does the extracted automaton predict the real object? 3000 pseudo-random walks of 300 inputs
fn validate(comp: &str, alpha: &[Input], recs: &[Value]) -> bool {
    let mut x: u64 = 0x2545F4914F6CDD1D;
    for _ in 0..3000 {
        let mut m = make(comp);
        let mut st = 0usize;
        for _ in 0..300 {
            x ^= x << 13;
            x ^= x >> 7;
            x ^= x << 17;
            let a = (x % alpha.len() as u64) as usize;
            if !recs[st]["expanded"].as_bool().unwrap_or(false) {
                break;
            }
            let (out, q) = match apply_caught(&mut m, &alpha[a]) {
                Ok(s) => (s.out, s.query),
                Err(msg) => (json!(["panic", msg]), json!(["noq"])),
            };
            if recs[st]["out"][a] != out || (recs[st].get("q").is_some() && recs[st]["q"][a] != q) {
                return false;
            }
            let nx = recs[st]["post"][a].as_u64().unwrap_or(0) as usize;
            if nx == 0 {
                break;
            }
            st = nx - 1;
        }
    }
    true
}

/// only stage alphabets have probe sets; composites keep going to the cap in rendering mode
fn probes_exist_hint(alpha: &[Input]) -> bool {
    let n = alpha.len();
    n == 3 || n == 256 || n >= 370
}

/// Behavioural equivalence classes of the extracted automaton (Moore partition refinement on
/// outputs and successor classes; generic, knows nothing about keyboards). Two states get the
/// same class number iff no input sequence distinguishes them. Unexpanded states and the
/// pseudo-successor 0 (panic) each form their own class. Lets the graph predicates say "back in
/// the initial condition" without relying on renderings being canonical.
fn moore_classes(recs: &[Value]) -> Vec<usize> {
    let n = recs.len();
    let mut cls: Vec<usize> = vec![0; n];
    // initial partition: by output vector (unexpanded: unique)
    let mut sig0: HashMap<String, usize> = HashMap::new();
    for (i, r) in recs.iter().enumerate() {
        let key = if r["expanded"].as_bool().unwrap_or(false) {
            format!("{}|{}", r["out"], r.get("q").map(|q| q.to_string()).unwrap_or_default())
        } else {
            format!("unexpanded{}", i)
        };
        let nx = sig0.len() + 1;
        cls[i] = *sig0.entry(key).or_insert(nx);
    }
    loop {
        let mut sig: HashMap<(usize, Vec<usize>), usize> = HashMap::new();
        let mut ncls = vec![0usize; n];
        for (i, r) in recs.iter().enumerate() {
            let succ: Vec<usize> = r["post"]
                .as_array()
                .map(|p| p.iter().map(|x| { let j = x.as_u64().unwrap_or(0) as usize; if j == 0 { 0 } else { cls[j - 1] } }).collect())
                .unwrap_or_default();
            let nx = sig.len() + 1;
            ncls[i] = *sig.entry((cls[i], succ)).or_insert(nx);
        }
        let stable = {
            let a: std::collections::HashSet<usize> = cls.iter().copied().collect();
            let b: std::collections::HashSet<usize> = ncls.iter().copied().collect();
            a.len() == b.len()
        };
        cls = ncls;
        if stable {
            break;
        }
    }
    cls
}
