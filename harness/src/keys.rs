//! The 124 `KeyCode` variants in enum order, and name/index helpers.
//! Names are the `Debug` renderings; indices are `k as u8`.
use pc_keyboard::{HandleControl, KeyCode, KeyState, Modifiers};

use KeyCode::*;
pub const ALL_KEYS: [KeyCode; 124] = [
    Escape, F1, F2, F3, F4, F5, F6, F7, F8, F9, F10, F11, F12, PrintScreen, SysRq, ScrollLock,
    PauseBreak, Oem8, Key1, Key2, Key3, Key4, Key5, Key6, Key7, Key8, Key9, Key0, OemMinus,
    OemPlus, Backspace, Insert, Home, PageUp, NumpadLock, NumpadDivide, NumpadMultiply,
    NumpadSubtract, Tab, Q, W, E, R, T, Y, U, I, O, P, Oem4, Oem6, Oem5, Oem7, Delete, End,
    PageDown, Numpad7, Numpad8, Numpad9, NumpadAdd, CapsLock, A, S, D, F, G, H, J, K, L, Oem1,
    Oem3, Return, Numpad4, Numpad5, Numpad6, LShift, Z, X, C, V, B, N, M, OemComma, OemPeriod,
    Oem2, RShift, ArrowUp, Numpad1, Numpad2, Numpad3, NumpadEnter, LControl, LWin, LAlt,
    Spacebar, RAltGr, RWin, Apps, RControl, ArrowLeft, ArrowDown, ArrowRight, Numpad0,
    NumpadPeriod, Oem9, Oem10, Oem11, Oem12, Oem13, PrevTrack, NextTrack, Mute, Calculator,
    Play, Stop, VolumeDown, VolumeUp, WWWHome, PowerOnTestOk, TooManyKeys, RControl2, RAlt2,
];

pub fn check_keys() {
    for (i, k) in ALL_KEYS.iter().enumerate() {
        assert_eq!(*k as u8 as usize, i, "harness key list out of step with KeyCode at {:?}", k);
    }
}

pub fn key_name(k: KeyCode) -> String {
    format!("{:?}", k)
}

pub fn key_by_name(name: &str) -> Option<KeyCode> {
    ALL_KEYS.iter().copied().find(|k| key_name(*k) == name)
}

pub const ALL_STATES: [KeyState; 3] = [KeyState::Down, KeyState::Up, KeyState::SingleShot];

pub fn state_name(s: KeyState) -> &'static str {
    match s {
        KeyState::Down => "Down",
        KeyState::Up => "Up",
        KeyState::SingleShot => "SingleShot",
    }
}
pub fn state_by_name(n: &str) -> Option<KeyState> {
    ALL_STATES.iter().copied().find(|s| state_name(*s) == n)
}

pub fn mode_name(h: HandleControl) -> &'static str {
    match h {
        HandleControl::MapLettersToUnicode => "Map",
        HandleControl::Ignore => "Ignore",
    }
}
pub fn mode_by_name(n: &str) -> Option<HandleControl> {
    match n {
        "Map" => Some(HandleControl::MapLettersToUnicode),
        "Ignore" => Some(HandleControl::Ignore),
        _ => None,
    }
}
pub const ALL_MODES: [HandleControl; 2] = [HandleControl::MapLettersToUnicode, HandleControl::Ignore];

/// bit0 lshift, 1 rshift, 2 lctrl, 3 rctrl, 4 numlock, 5 capslock, 6 lalt, 7 ralt, 8 rctrl2
pub fn mods_to_int(m: &Modifiers) -> u32 {
    (m.lshift as u32)
        | (m.rshift as u32) << 1
        | (m.lctrl as u32) << 2
        | (m.rctrl as u32) << 3
        | (m.numlock as u32) << 4
        | (m.capslock as u32) << 5
        | (m.lalt as u32) << 6
        | (m.ralt as u32) << 7
        | (m.rctrl2 as u32) << 8
}
pub fn mods_from_int(v: u32) -> Modifiers {
    Modifiers {
        lshift: v & 1 != 0,
        rshift: v & 2 != 0,
        lctrl: v & 4 != 0,
        rctrl: v & 8 != 0,
        numlock: v & 16 != 0,
        capslock: v & 32 != 0,
        lalt: v & 64 != 0,
        ralt: v & 128 != 0,
        rctrl2: v & 256 != 0,
        // tolerate fields added to Modifiers later (they start at their default)
        ..Default::default()
    }
}
