//! (T) function tables: layouts, Modifiers predicates, add_word.
use crate::keys::*;
use crate::machines::*;
use pc_keyboard::layouts::*;
use pc_keyboard::*;
use serde_json::json;
use std::io::Write;
use std::panic::{catch_unwind, AssertUnwindSafe};

/// decoded int, or i64::MIN for a panic
fn cell(l: &dyn KeyboardLayout, k: KeyCode, m: u32, h: HandleControl) -> i64 {
    let mods = mods_from_int(m);
    match catch_unwind(AssertUnwindSafe(|| l.map_keycode(k, &mods, h))) {
        Ok(d) => decoded_int(d),
        Err(_) => -1000000,
    }
}

fn dump(w: &mut dyn Write, obj: &str, form: &str, lay: &str, l: &dyn KeyboardLayout) {
    for k in ALL_KEYS {
        for h in ALL_MODES {
            let o: Vec<i64> = (0..512u32).map(|m| cell(l, k, m, h)).collect();
            writeln!(
                w,
                "{}",
                json!({"obj": obj, "form": form, "layout": lay, "k": key_name(k), "h": mode_name(h), "o": o})
            )
            .unwrap();
        }
    }
}

/// 30 layout objects x 124 keys x 2 modes, 512 cells per record.
pub fn layouts(w: &mut dyn Write) {
    let plain: [(&str, Box<dyn KeyboardLayout>); 10] = [
        ("DVP104Key", Box::new(DVP104Key)),
        ("Dvorak104Key", Box::new(Dvorak104Key)),
        ("Us104Key", Box::new(Us104Key)),
        ("Uk105Key", Box::new(Uk105Key)),
        ("Jis109Key", Box::new(Jis109Key)),
        ("Azerty", Box::new(Azerty)),
        ("Colemak", Box::new(Colemak)),
        ("De105Key", Box::new(De105Key)),
        ("No105Key", Box::new(No105Key)),
        ("FiSe105Key", Box::new(FiSe105Key)),
    ];
    for (name, l) in plain.iter() {
        dump(w, name, "plain", name, l.as_ref());
    }
    for i in 0..10u8 {
        let a = any_layout(i);
        dump(w, &format!("Any({})", LAYOUT_NAMES[i as usize]), "any", LAYOUT_NAMES[i as usize], &a);
    }
    for i in 0..10u8 {
        let a = any_layout(i);
        let r: &AnyLayout = &a;
        // `&AnyLayout` has its own KeyboardLayout impl: call through a reference to the reference
        dump(w, &format!("&Any({})", LAYOUT_NAMES[i as usize]), "ref", LAYOUT_NAMES[i as usize], &r);
    }
}

pub fn preds(w: &mut dyn Write) {
    for m in 0..512u32 {
        let mo = mods_from_int(m);
        writeln!(
            w,
            "{}",
            json!({"m": m, "back": mods_to_int(&mo), "shifted": mo.is_shifted(), "ctrl": mo.is_ctrl(),
                   "alt": mo.is_alt(), "altgr": mo.is_altgr(), "caps": mo.is_caps()})
        )
        .unwrap();
    }
}

/// add_word on all 65536 u16 values, through Ps2Decoder and through Keyboard (Set 2 decoding of
/// the byte is part of the Keyboard result).
pub fn words(w: &mut dyn Write) {
    for base in (0..65536u32).step_by(256) {
        let mut r = Vec::new();
        let mut kb = Vec::new();
        for x in 0..256u32 {
            let word = (base + x) as u16;
            let mut m = make("frame");
            r.push(match apply_caught(&mut m, &Input::Word(word)) {
                Ok(s) => s.out,
                Err(msg) => json!(["panic", msg]),
            });
            let mut k = make("kb2");
            kb.push(match apply_caught(&mut k, &Input::Word(word)) {
                Ok(s) => s.out,
                Err(msg) => json!(["panic", msg]),
            });
        }
        writeln!(w, "{}", json!({"base": base, "r": r, "kb": kb})).unwrap();
    }
}

/// one cell of one layout object, named as in the table ("De105Key", "Any(De105Key)", "&Any(De105Key)")
pub fn one_cell(obj: &str, k: KeyCode, m: u32, h: HandleControl) -> i64 {
    let (form, name) = if let Some(n) = obj.strip_prefix("&Any(") {
        ("ref", n.trim_end_matches(')'))
    } else if let Some(n) = obj.strip_prefix("Any(") {
        ("any", n.trim_end_matches(')'))
    } else {
        ("plain", obj)
    };
    let idx = LAYOUT_NAMES.iter().position(|x| *x == name).expect("layout name") as u8;
    let a = any_layout(idx);
    match form {
        "ref" => {
            let r: &AnyLayout = &a;
            cell(&r, k, m, h)
        }
        "any" => cell(&a, k, m, h),
        _ => match idx {
            0 => cell(&DVP104Key, k, m, h),
            1 => cell(&Dvorak104Key, k, m, h),
            2 => cell(&Us104Key, k, m, h),
            3 => cell(&Uk105Key, k, m, h),
            4 => cell(&Jis109Key, k, m, h),
            5 => cell(&Azerty, k, m, h),
            6 => cell(&Colemak, k, m, h),
            7 => cell(&De105Key, k, m, h),
            8 => cell(&No105Key, k, m, h),
            _ => cell(&FiSe105Key, k, m, h),
        },
    }
}

/// EventDecoder<AnyLayout> with real layouts: for each of the ten layouts, each state of the
/// TLC-exported event automaton with layout id 0 (512 modifier sets x 2 modes, reached by the
/// generic access paths of the table) and each of the 124 keys, press the key and record what
/// process_keyevent returns. Same row format as `layouts` (form "event"), so that the table can be
/// compared cell by cell with the layout's own table: C14 with real layouts.
pub fn eventlayouts(event_table: &str, w: &mut dyn Write) {
    let auto = crate::replay::load(event_table);
    let acc = crate::replay::access_paths(&auto);
    for li in 0..10u8 {
        // rows[key][mode][mods]
        let mut rows = vec![vec![vec![-2000000i64; 512]; 2]; 124];
        for (s, st) in auto.states.iter().enumerate() {
            let (m, mode, lay) = (st[0].as_u64().unwrap() as usize, st[1].as_str().unwrap(), st[2].as_u64().unwrap());
            if lay != 0 {
                continue;
            }
            let path = match &acc[s] {
                Some(p) => p,
                None => continue,
            };
            let hi = if mode == "Map" { 0 } else { 1 };
            for (ki, k) in ALL_KEYS.iter().enumerate() {
                let mut d = make(&format!("eventany:{}", li));
                for &a in path {
                    let _ = apply_caught(&mut d, &auto.alphabet[a]);
                }
                rows[ki][hi][m] = match apply_caught(&mut d, &Input::Key(*k, KeyState::Down)) {
                    Ok(st) => match st.out[0].as_str() {
                        Some("key") => st.out[1].as_i64().unwrap(),
                        _ => -3000000, // no decoded key for a press
                    },
                    Err(_) => -1000000,
                };
            }
        }
        for (ki, k) in ALL_KEYS.iter().enumerate() {
            for (hi, h) in ALL_MODES.iter().enumerate() {
                writeln!(
                    w,
                    "{}",
                    json!({"obj": format!("Event({})", LAYOUT_NAMES[li as usize]), "form": "event", "layout": LAYOUT_NAMES[li as usize],
                           "k": key_name(*k), "h": mode_name(*h), "o": rows[ki][hi]})
                )
                .unwrap();
            }
        }
    }
}
