//! (V) trace recording: drive a real Keyboard with seeded random interleavings of all its
//! entry points (with injected line noise) and log every call at its return:
//! {"in": input, "ret": result, "q": layout query, "obs": [mods, mode], "stage": [ids]}.
//! A {"in":["reset"]} line marks a fresh object. The driver only generates inputs; it has no
//! expectations about results.
use crate::keys::*;
use crate::machines::*;
use pc_keyboard::{HandleControl, KeyState};
use rand::rngs::StdRng;
use rand::{Rng, SeedableRng};
use serde_json::{json, Value};
use std::io::Write;

fn enc(b: u8) -> u16 {
    let par = if b.count_ones() % 2 == 0 { 1u16 } else { 0 };
    ((b as u16) << 1) | (par << 9) | (1 << 10)
}

/// bytes that matter to both scancode sets, plus anything
fn pick_byte(r: &mut StdRng) -> u8 {
    const HOT: [u8; 24] = [
        0xE0, 0xE1, 0xF0, 0x14, 0x12, 0x59, 0x11, 0x77, 0x58, 0x1C, 0x00, 0xAA, 0x1D, 0x9D, 0x2A,
        0xAA, 0x36, 0x38, 0xB8, 0x45, 0xC5, 0x3A, 0x7C, 0x37,
    ];
    if r.gen_bool(0.6) {
        HOT[r.gen_range(0..HOT.len())]
    } else {
        r.gen()
    }
}

fn pick_event(r: &mut StdRng) -> Input {
    use pc_keyboard::KeyCode as K;
    const MODS: [pc_keyboard::KeyCode; 9] = [
        K::LShift, K::RShift, K::LControl, K::RControl, K::LAlt, K::RAltGr, K::RControl2,
        K::CapsLock, K::NumpadLock,
    ];
    let k = if r.gen_bool(0.5) { MODS[r.gen_range(0..9)] } else { ALL_KEYS[r.gen_range(0..124)] };
    let s = match r.gen_range(0..10) {
        0..=4 => KeyState::Down,
        5..=8 => KeyState::Up,
        _ => KeyState::SingleShot,
    };
    Input::Key(k, s)
}

thread_local! {
    /// opaque stage renderings interned to small integers (equal string <=> equal integer)
    static INTERN: std::cell::RefCell<std::collections::HashMap<String, usize>> = std::cell::RefCell::new(std::collections::HashMap::new());
}
fn stage_json(m: &Box<dyn Machine>) -> Value {
    match m.stage_ids() {
        None => json!([]),
        Some(ids) => INTERN.with(|t| {
            let mut t = t.borrow_mut();
            let v: Vec<usize> = ids
                .iter()
                .map(|s| {
                    let n = t.len() + 1;
                    *t.entry(s.clone()).or_insert(n)
                })
                .collect();
            json!(v)
        }),
    }
}

fn log(w: &mut dyn Write, m: &mut Box<dyn Machine>, inp: &Input) -> bool {
    match apply_caught(m, inp) {
        Ok(s) => {
            let st: Value = stage_json(m);
            writeln!(w, "{}", json!({"in": inp.to_json(), "ret": s.out, "q": s.query, "obs": m.obs(), "stage": st}))
                .unwrap();
            true
        }
        Err(msg) => {
            writeln!(w, "{}", json!({"in": inp.to_json(), "ret": ["panic", msg], "q": ["noq"], "obs": [-1, "?"], "stage": []}))
                .unwrap();
            false
        }
    }
}

/// noise driver: `runs` fresh objects, `n` calls each.
pub fn noise(comp: &str, seed: u64, runs: usize, n: usize, w: &mut dyn Write) {
    let mut r = StdRng::seed_from_u64(seed);
    for _ in 0..runs {
        let mut m = make(comp);
        let st: Value = stage_json(&m);
        writeln!(w, "{}", json!({"in": ["reset"], "ret": ["none"], "q": ["noq"], "obs": m.obs(), "stage": st})).unwrap();
        let mut count = 0usize;
        let mut alive = true;
        while count < n && alive {
            match r.gen_range(0..100) {
                // a frame sent bit by bit, possibly damaged: flipped bit, dropped bit (then the
                // host times out and calls clear()), or an extra bit
                0..=44 => {
                    let word = enc(pick_byte(&mut r));
                    let mut bits: Vec<bool> = (0..11).map(|i| (word >> i) & 1 == 1).collect();
                    let fault = r.gen_range(0..10);
                    let mut clear_after = false;
                    match fault {
                        0 => {
                            let i = r.gen_range(0..11);
                            bits[i] = !bits[i];
                        }
                        1 => {
                            let i = r.gen_range(0..11);
                            bits.remove(i);
                            clear_after = r.gen_bool(0.7);
                        }
                        2 => {
                            let i = r.gen_range(0..11);
                            bits.insert(i, r.gen());
                        }
                        _ => {}
                    }
                    for b in bits {
                        alive = alive && log(w, &mut m, &Input::Bit(b));
                        count += 1;
                        // other entry points may be called in the middle of a frame
                        if alive && r.gen_range(0..40) == 0 {
                            let other = match r.gen_range(0..4) {
                                0 => Input::Byte(pick_byte(&mut r)),
                                1 => pick_event(&mut r),
                                2 => Input::Word(enc(pick_byte(&mut r))),
                                _ => Input::Mode(if r.gen() { HandleControl::Ignore } else { HandleControl::MapLettersToUnicode }),
                            };
                            alive = alive && log(w, &mut m, &other);
                            count += 1;
                        }
                        if !alive {
                            break;
                        }
                    }
                    if clear_after && alive {
                        alive = log(w, &mut m, &Input::Clear);
                        count += 1;
                    }
                }
                45..=59 => {
                    alive = log(w, &mut m, &Input::Byte(pick_byte(&mut r)));
                    count += 1;
                }
                60..=69 => {
                    let mut word = enc(pick_byte(&mut r));
                    if r.gen_bool(0.3) {
                        word ^= 1 << r.gen_range(0..11);
                    }
                    alive = log(w, &mut m, &Input::Word(word));
                    count += 1;
                }
                70..=93 => {
                    alive = log(w, &mut m, &pick_event(&mut r));
                    count += 1;
                }
                94..=96 => {
                    alive = log(w, &mut m, &Input::Clear);
                    count += 1;
                }
                _ => {
                    let h = if r.gen() { HandleControl::Ignore } else { HandleControl::MapLettersToUnicode };
                    alive = log(w, &mut m, &Input::Mode(h));
                    count += 1;
                }
            }
        }
    }
}

/// typist driver: a simulated person at a keyboard. Keeps a set of physically held keys and
/// produces key events the way real typing does: press a key, release a held key (in any order),
/// typematic repeat of the most recently pressed key that is still held, lock-key taps, and now
/// and then a change of Ctrl handling between two events. This makes histories such as "key
/// down, modifier up, same key down again" or "modifier held across another key's press and
/// release" common, which uniformly random events almost never produce. Events go through
/// process_keyevent; every 4th run sends them as Set-agnostic bytes is left to the noise driver.
pub fn typist(comp: &str, seed: u64, runs: usize, n: usize, w: &mut dyn Write) {
    use pc_keyboard::KeyCode as K;
    let mut r = StdRng::seed_from_u64(seed ^ 0x5eed_7791);
    const MODS: [K; 9] = [K::LShift, K::RShift, K::LControl, K::RControl, K::LAlt, K::RAltGr, K::RControl2, K::CapsLock, K::NumpadLock];
    for _ in 0..runs {
        let mut m = make(comp);
        let st: Value = stage_json(&m);
        writeln!(w, "{}", json!({"in": ["reset"], "ret": ["none"], "q": ["noq"], "obs": m.obs(), "stage": st})).unwrap();
        let mut held: Vec<K> = Vec::new();
        let mut last: Option<K> = None;
        // a small working set of keys makes coincidences (same key again) likely
        let pool: Vec<K> = (0..10).map(|_| ALL_KEYS[r.gen_range(0..124)]).collect();
        let mut count = 0usize;
        let mut alive = true;
        while count < n && alive {
            let inp = match r.gen_range(0..100) {
                0..=29 => {
                    // press: a modifier, a key from the pool, or any key
                    let k = match r.gen_range(0..10) {
                        0..=3 => MODS[r.gen_range(0..9)],
                        4..=8 => pool[r.gen_range(0..pool.len())],
                        _ => ALL_KEYS[r.gen_range(0..124)],
                    };
                    if !held.contains(&k) {
                        held.push(k);
                    }
                    last = Some(k);
                    Input::Key(k, KeyState::Down)
                }
                30..=54 if !held.is_empty() => {
                    let i = r.gen_range(0..held.len());
                    let k = held.remove(i);
                    Input::Key(k, KeyState::Up)
                }
                55..=79 => match last {
                    // typematic repeat of the most recently pressed key, if still held
                    Some(k) if held.contains(&k) => Input::Key(k, KeyState::Down),
                    _ => match held.last() {
                        Some(&k) => Input::Key(k, KeyState::Down),
                        None => Input::Key(pool[r.gen_range(0..pool.len())], KeyState::Down),
                    },
                },
                80..=89 => {
                    // a stray release of a key that is not held, or a one-shot
                    let k = ALL_KEYS[r.gen_range(0..124)];
                    Input::Key(k, if r.gen_bool(0.8) { KeyState::Up } else { KeyState::SingleShot })
                }
                90..=95 => Input::Mode(if r.gen() { HandleControl::Ignore } else { HandleControl::MapLettersToUnicode }),
                _ => match r.gen_range(0..3) {
                    0 => Input::Byte(pick_byte(&mut r)),
                    1 => Input::Bit(r.gen()),
                    _ => Input::Clear,
                },
            };
            alive = log(w, &mut m, &inp);
            count += 1;
        }
    }
}

/// pipeline driver: the way an application uses the crate - bytes go in through add_byte (or as
/// whole words / bit by bit), and every key event that comes back is handed to process_keyevent
/// before the next byte. Byte choice is biased towards real make/break/prefix bytes, so that
/// modifier presses actually change the event stage while later bytes are decoded.
pub fn pipeline(comp: &str, seed: u64, runs: usize, n: usize, w: &mut dyn Write) {
    let mut r = StdRng::seed_from_u64(seed ^ 0x9e37_79b9);
    for _ in 0..runs {
        let mut m = make(comp);
        let st: Value = stage_json(&m);
        writeln!(w, "{}", json!({"in": ["reset"], "ret": ["none"], "q": ["noq"], "obs": m.obs(), "stage": st})).unwrap();
        let mut count = 0usize;
        let mut alive = true;
        while count < n && alive {
            let b = pick_byte(&mut r);
            // which entry point carries the byte
            let inputs: Vec<Input> = match r.gen_range(0..10) {
                0..=6 => vec![Input::Byte(b)],
                7..=8 => vec![Input::Word(enc(b))],
                _ => (0..11).map(|i| Input::Bit((enc(b) >> i) & 1 == 1)).collect(),
            };
            let mut event: Option<Input> = None;
            for inp in inputs {
                match apply_caught(&mut m, &inp) {
                    Ok(s) => {
                        let stj: Value = stage_json(&m);
                        writeln!(w, "{}", json!({"in": inp.to_json(), "ret": s.out, "q": s.query, "obs": m.obs(), "stage": stj})).unwrap();
                        if s.out[0] == "ev" {
                            if let (Some(k), Some(st)) = (key_by_name(s.out[1].as_str().unwrap_or("")), state_by_name(s.out[2].as_str().unwrap_or(""))) {
                                event = Some(Input::Key(k, st));
                            }
                        }
                    }
                    Err(msg) => {
                        writeln!(w, "{}", json!({"in": inp.to_json(), "ret": ["panic", msg], "q": ["noq"], "obs": [-1, "?"], "stage": []})).unwrap();
                        alive = false;
                        break;
                    }
                }
                count += 1;
            }
            if let (true, Some(ev)) = (alive, event) {
                alive = log(w, &mut m, &ev);
                count += 1;
            }
        }
    }
}

/// systematic driver: EVERY sequence of `len` inputs over a small alphabet of realistic actions
/// (press / release of the modifier and lock keys, of a letter, a digit and a numpad key, and the two
/// Ctrl-handling modes), each on a fresh object. Bounded-exhaustive short histories: complements
/// the breadth-first graph when a change multiplies the state space beyond the exploration cap.
pub fn systematic(comp: &str, len: usize, w: &mut dyn Write) {
    use pc_keyboard::KeyCode as K;
    let keys = [K::LShift, K::RControl, K::RAltGr, K::LAlt, K::CapsLock, K::NumpadLock, K::RControl2, K::A, K::Key3, K::Numpad7];
    let mut alpha: Vec<Input> = Vec::new();
    for k in keys {
        alpha.push(Input::Key(k, KeyState::Down));
        alpha.push(Input::Key(k, KeyState::Up));
    }
    alpha.push(Input::Mode(HandleControl::MapLettersToUnicode));
    alpha.push(Input::Mode(HandleControl::Ignore));
    let n = alpha.len();
    let total = n.pow(len as u32);
    for v in 0..total {
        let mut m = make(comp);
        let st: Value = stage_json(&m);
        writeln!(w, "{}", json!({"in": ["reset"], "ret": ["none"], "q": ["noq"], "obs": m.obs(), "stage": st})).unwrap();
        let mut x = v;
        for _ in 0..len {
            if !log(w, &mut m, &alpha[x % n]) {
                break;
            }
            x /= n;
        }
    }
}

/// replay a scripted list of scenarios: JSON array of arrays of inputs, each on a fresh object
pub fn scripted(comp: &str, scenarios: &Value, w: &mut dyn Write) {
    for sc in scenarios.as_array().expect("scenarios: array") {
        let mut m = make(comp);
        let st: Value = stage_json(&m);
        writeln!(w, "{}", json!({"in": ["reset"], "ret": ["none"], "q": ["noq"], "obs": m.obs(), "stage": st})).unwrap();
        for iv in sc.as_array().expect("scenario: array") {
            let inp = Input::from_json(iv).expect("bad input in scenario");
            if !log(w, &mut m, &inp) {
                break;
            }
        }
    }
}
