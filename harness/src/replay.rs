//! (R) spec -> impl replay. A generic table walker: the automaton exported by TLC
//! (Export_Tables.tla) is stepped next to the real object and every result is compared for
//! equality with TLC's value. The walker knows nothing about keyboards: it only follows
//! `next`/`out` of the table and calls the real object with the table's own inputs.
//! Mismatches are de-duplicated per (table state, input, observed result) and printed as
//! `@@M {json}` lines with one example stream each.
use crate::machines::*;
use pc_keyboard::{ScancodeSet, ScancodeSet1, ScancodeSet2};
use serde_json::{json, Value};
use std::collections::{HashMap, HashSet, VecDeque};
use std::sync::Mutex;

pub struct Auto {
    pub name: String,
    pub init: usize,
    pub alphabet: Vec<Input>,
    pub next: Vec<Vec<usize>>,
    pub out: Vec<Vec<Value>>,
    pub out_s: Vec<Vec<String>>,
    pub states: Vec<Value>,
}

pub fn load(path: &str) -> Auto {
    let txt = std::fs::read_to_string(path).expect("read table");
    let v: Value = serde_json::from_str(&txt).expect("parse table");
    let alphabet: Vec<Input> =
        v["alphabet"].as_array().expect("alphabet").iter().map(|x| Input::from_json(x).expect("input")).collect();
    let next: Vec<Vec<usize>> = v["next"]
        .as_array()
        .expect("next")
        .iter()
        .map(|r| r.as_array().unwrap().iter().map(|x| x.as_u64().unwrap() as usize - 1).collect())
        .collect();
    let out: Vec<Vec<Value>> =
        v["out"].as_array().expect("out").iter().map(|r| r.as_array().unwrap().clone()).collect();
    let out_s = out.iter().map(|r| r.iter().map(|x| x.to_string()).collect()).collect();
    let states: Vec<Value> = v["states"].as_array().cloned().unwrap_or_default();
    Auto { states, name: v["name"].as_str().unwrap_or("").to_string(), init: v["init"].as_u64().unwrap() as usize - 1, alphabet, next, out, out_s }
}

/// shortest input sequence reaching each table state (generic BFS over the table)
pub fn access_paths(a: &Auto) -> Vec<Option<Vec<usize>>> {
    let mut acc: Vec<Option<Vec<usize>>> = vec![None; a.next.len()];
    acc[a.init] = Some(vec![]);
    let mut q = VecDeque::new();
    q.push_back(a.init);
    while let Some(s) = q.pop_front() {
        for (i, &t) in a.next[s].iter().enumerate() {
            if acc[t].is_none() {
                let mut p = acc[s].clone().unwrap();
                p.push(i);
                acc[t] = Some(p);
                q.push_back(t);
            }
        }
    }
    acc
}

pub struct Report {
    seen: Mutex<HashSet<(usize, usize, String)>>,
    pub steps: std::sync::atomic::AtomicU64,
    pub seqs: std::sync::atomic::AtomicU64,
}
impl Report {
    pub fn new() -> Self {
        Report { seen: Mutex::new(HashSet::new()), steps: Default::default(), seqs: Default::default() }
    }
    pub fn mismatch(&self, a: &Auto, comp: &str, state: usize, inp: usize, observed: String, stream: Vec<Value>) {
        let mut g = self.seen.lock().unwrap();
        if g.len() < 500 && g.insert((state, inp, observed.clone())) {
            let obs: Value = serde_json::from_str(&observed).unwrap_or(json!(observed));
            println!(
                "@@M {}",
                json!({"kind": "replay", "comp": comp, "table": a.name, "state": state + 1,
                       "ctx": a.states.get(state).cloned().unwrap_or(json!(state + 1)), "input": a.alphabet[inp].to_json(),
                       "observed": obs, "expected": a.out[state][inp], "stream": stream})
            );
        }
    }
    pub fn count(&self) -> usize {
        self.seen.lock().unwrap().len()
    }
}

fn observed_value(comp: &str, s: &Step) -> Value {
    if comp == "event" {
        json!([s.out, s.query])
    } else {
        s.out.clone()
    }
}

/// run one input-index sequence on a fresh real object next to the table, starting from the
/// table's initial state; compare every result
pub fn run_seq(a: &Auto, comp: &str, seq: &[usize], rep: &Report) {
    let mut m = make(comp);
    let mut st = a.init;
    rep.seqs.fetch_add(1, std::sync::atomic::Ordering::Relaxed);
    for (n, &i) in seq.iter().enumerate() {
        rep.steps.fetch_add(1, std::sync::atomic::Ordering::Relaxed);
        let obs = match apply_caught(&mut m, &a.alphabet[i]) {
            Ok(s) => observed_value(comp, &s).to_string(),
            Err(msg) => json!(["panic", msg]).to_string(),
        };
        if obs != a.out_s[st][i] {
            let stream: Vec<Value> = seq[..=n].iter().map(|&j| a.alphabet[j].to_json()).collect();
            rep.mismatch(a, comp, st, i, obs, stream);
            return; // the real object has left the table's path; later steps are not comparable
        }
        st = a.next[st][i];
    }
}

fn par_for<F: Fn(usize) + Sync>(n: usize, f: F) {
    let threads = std::thread::available_parallelism().map(|x| x.get()).unwrap_or(4).min(16);
    let next = std::sync::atomic::AtomicUsize::new(0);
    std::thread::scope(|sc| {
        for _ in 0..threads {
            sc.spawn(|| loop {
                let i = next.fetch_add(1, std::sync::atomic::Ordering::Relaxed);
                if i >= n {
                    break;
                }
                f(i);
            });
        }
    });
}

/// frame table: (a) every ordered pair of 11-bit frames from the initial state (22 bits);
/// (b) from every table state: clear(), then every 11-bit frame. `stride` samples the outer loop.
pub fn frame(a: &Auto, stride: usize, rep: &Report) {
    // long periodic bit streams (stuck line, alternating, every bit pattern up to period 11 in the
    // thorough tier): 800 000 bits each is more than 65 536 frames
    periodic(a, "frame", if stride == 1 { 11 } else { 6 }, if stride == 1 { 800_000 } else { 40_000 }, 2, rep);
    let bit = |w: usize, i: usize| (w >> i) & 1; // alphabet index 0 = bit 0, 1 = bit 1, 2 = clear
    par_for(2048, |w1| {
        if w1 % stride != 0 && stride > 1 && w1 % 257 != 3 {
            return;
        }
        for w2 in 0..2048usize {
            let mut seq = Vec::with_capacity(22);
            for i in 0..11 {
                seq.push(bit(w1, i));
            }
            for i in 0..11 {
                seq.push(bit(w2, i));
            }
            run_seq(a, "frame", &seq, rep);
        }
    });
    let acc = access_paths(a);
    par_for(a.next.len(), |s| {
        if s % stride != 0 && stride > 1 {
            return;
        }
        if let Some(p) = &acc[s] {
            for w in 0..2048usize {
                let mut seq = p.clone();
                seq.push(2);
                for i in 0..11 {
                    seq.push(bit(w, i));
                }
                run_seq(a, "frame", &seq, rep);
            }
        }
    });
}

/// long periodic input streams from the initial state (period <= max_period over the alphabet,
/// `len` inputs each): hidden counters and accumulators that only overflow or wrap after
/// hundreds or thousands of calls show up here, far beyond any breadth-first exploration.
pub fn periodic(a: &Auto, comp: &str, max_period: usize, len: usize, alpha_limit: usize, rep: &Report) {
    let n = a.alphabet.len().min(alpha_limit);
    let mut patterns: Vec<Vec<usize>> = Vec::new();
    for p in 1..=max_period {
        let total = n.pow(p as u32);
        for v in 0..total {
            let mut x = v;
            let mut pat = Vec::with_capacity(p);
            for _ in 0..p {
                pat.push(x % n);
                x /= n;
            }
            patterns.push(pat);
        }
    }
    par_for(patterns.len(), |pi| {
        let pat = &patterns[pi];
        let seq: Vec<usize> = (0..len).map(|i| pat[i % pat.len()]).collect();
        run_seq(a, comp, &seq, rep);
    });
}

/// all patterns of exactly this period
pub fn periodic_exact(a: &Auto, comp: &str, period: usize, len: usize, rep: &Report) {
    let n = a.alphabet.len();
    let total = n.pow(period as u32);
    par_for(total, |v| {
        let mut x = v;
        let mut pat = Vec::with_capacity(period);
        for _ in 0..period {
            pat.push(x % n);
            x /= n;
        }
        let seq: Vec<usize> = (0..len).map(|i| pat[i % period]).collect();
        run_seq(a, comp, &seq, rep);
    });
}

/// event table: from every (sampled) table state, every ordered pair of inputs
pub fn event(a: &Auto, stride: usize, rep: &Report) {
    // long periodic event streams of period 1 and 2 over the whole alphabet
    periodic(a, "event", if stride == 1 { 2 } else { 1 }, if stride == 1 { 70_000 } else { 3_000 }, usize::MAX, rep);
    let acc = access_paths(a);
    let n = a.alphabet.len();
    par_for(a.next.len(), |s| {
        if s % stride != 0 {
            return;
        }
        if let Some(p) = &acc[s] {
            for x in 0..n {
                for y in 0..n {
                    let mut seq = p.clone();
                    seq.push(x);
                    seq.push(y);
                    run_seq(a, "event", &seq, rep);
                }
            }
        }
    });
}

// ---- fast path for the scancode sets: all byte streams of a given length, DFS with Clone ----
fn code_of_value(v: &Value, keys: &HashMap<String, u32>) -> u32 {
    let a = v.as_array().unwrap();
    match a[0].as_str().unwrap() {
        "none" => 0,
        "err" => match a[1].as_str().unwrap() {
            "UnknownKeyCode" => 1,
            "BadStartBit" => 2,
            "BadStopBit" => 3,
            "ParityError" => 4,
            _ => 9,
        },
        "ev" => {
            let k = *keys.get(a[1].as_str().unwrap()).unwrap_or(&9999);
            let s = match a[2].as_str().unwrap() {
                "Down" => 0,
                "Up" => 1,
                _ => 2,
            };
            100 + k * 3 + s
        }
        _ => 99999,
    }
}
fn code_of_result(r: &Result<Option<pc_keyboard::KeyEvent>, pc_keyboard::Error>) -> u32 {
    match r {
        Ok(None) => 0,
        Err(e) => match e {
            pc_keyboard::Error::UnknownKeyCode => 1,
            pc_keyboard::Error::BadStartBit => 2,
            pc_keyboard::Error::BadStopBit => 3,
            pc_keyboard::Error::ParityError => 4,
            #[allow(unreachable_patterns)]
            _ => 9,
        },
        Ok(Some(ev)) => {
            let s = match ev.state {
                pc_keyboard::KeyState::Down => 0,
                pc_keyboard::KeyState::Up => 1,
                pc_keyboard::KeyState::SingleShot => 2,
            };
            100 + (ev.code as u8 as u32) * 3 + s
        }
    }
}

fn dfs<S: ScancodeSet + Clone>(
    a: &Auto, codes: &Vec<Vec<u32>>, comp: &str, real: &S, st: usize, depth: usize, path: &mut Vec<u8>, rep: &Report,
    steps: &mut u64,
) {
    for b in 0..=255u8 {
        let mut r2 = real.clone();
        let res = std::panic::catch_unwind(std::panic::AssertUnwindSafe(|| r2.advance_state(b)));
        *steps += 1;
        let ok = match &res {
            Ok(r) => code_of_result(r) == codes[st][b as usize],
            Err(_) => false,
        };
        if !ok {
            let obs = match res {
                Ok(r) => res_scan(r).to_string(),
                Err(_) => json!(["panic", "panic"]).to_string(),
            };
            let mut stream: Vec<Value> = path.iter().map(|x| json!(["byte", x])).collect();
            stream.push(json!(["byte", b]));
            rep.mismatch(a, comp, st, b as usize, obs, stream);
            continue;
        }
        if depth > 1 {
            path.push(b);
            dfs(a, codes, comp, &r2, a.next[st][b as usize], depth - 1, path, rep, steps);
            path.pop();
        }
    }
}

pub fn scan(a: &Auto, comp: &str, depth: usize, rep: &Report) {
    // long periodic byte streams (period 1 and 2 over all 256 bytes; 70 000 bytes each in the
    // thorough tier) through the generic walker
    periodic(a, comp, 1, if depth >= 4 { 70_000 } else { 2_000 }, usize::MAX, rep);
    periodic_exact(a, comp, 2, if depth >= 4 { 1_600 } else { 560 }, rep);
    let keys: HashMap<String, u32> =
        crate::keys::ALL_KEYS.iter().map(|k| (crate::keys::key_name(*k), *k as u8 as u32)).collect();
    let codes: Vec<Vec<u32>> = a.out.iter().map(|r| r.iter().map(|v| code_of_value(v, &keys)).collect()).collect();
    // first byte handled here, the rest in parallel DFS
    par_for(256, |b0| {
        let mut steps = 0u64;
        let b = b0 as u8;
        macro_rules! go {
            ($mk:expr) => {{
                let mut real = $mk;
                let res = std::panic::catch_unwind(std::panic::AssertUnwindSafe(|| real.advance_state(b)));
                steps += 1;
                let ok = matches!(&res, Ok(r) if code_of_result(r) == codes[a.init][b0]);
                if !ok {
                    let obs = match res {
                        Ok(r) => res_scan(r).to_string(),
                        Err(_) => json!(["panic", "panic"]).to_string(),
                    };
                    rep.mismatch(a, comp, a.init, b0, obs, vec![json!(["byte", b])]);
                } else if depth > 1 {
                    let mut path = vec![b];
                    dfs(a, &codes, comp, &real, a.next[a.init][b0], depth - 1, &mut path, rep, &mut steps);
                }
            }};
        }
        if comp == "set1" {
            go!(ScancodeSet1::new())
        } else {
            go!(ScancodeSet2::new())
        }
        rep.steps.fetch_add(steps, std::sync::atomic::Ordering::Relaxed);
    });
    rep.seqs.fetch_add(256u64.pow(depth as u32), std::sync::atomic::Ordering::Relaxed);
}

/// words table: add_word over 0..2047 against check[w]
pub fn words(path: &str, rep_n: &mut u64) -> Vec<Value> {
    let txt = std::fs::read_to_string(path).expect("read table");
    let v: Value = serde_json::from_str(&txt).expect("parse table");
    let mut bad = Vec::new();
    for (w, exp) in v["check"].as_array().expect("check").iter().enumerate() {
        let mut m = make("frame");
        let obs = match apply_caught(&mut m, &Input::Word(w as u16)) {
            Ok(s) => s.out,
            Err(msg) => json!(["panic", msg]),
        };
        *rep_n += 1;
        if &obs != exp {
            bad.push(json!({"kind": "replay-word", "comp": "frame", "word": w, "observed": obs, "expected": exp}));
        }
    }
    bad
}
