//! Thin drivers around the real pc-keyboard objects. Observer code only: apply an input,
//! report the result and the object's identity. No expectations live here.
use crate::keys::*;
use pc_keyboard::layouts::*;
use pc_keyboard::*;
use serde_json::{json, Value};
use std::cell::RefCell;
use std::panic::{catch_unwind, AssertUnwindSafe};
use std::rc::Rc;

#[derive(Clone, Debug, PartialEq)]
pub enum Input {
    Bit(bool),
    Clear,
    Word(u16),
    Byte(u8),
    Key(KeyCode, KeyState),
    Mode(HandleControl),
    Layout(u8),
}

impl Input {
    pub fn to_json(&self) -> Value {
        match self {
            Input::Bit(b) => json!(["bit", *b as u8]),
            Input::Clear => json!(["clear"]),
            Input::Word(w) => json!(["word", w]),
            Input::Byte(b) => json!(["byte", b]),
            Input::Key(k, s) => json!(["key", key_name(*k), state_name(*s)]),
            Input::Mode(h) => json!(["mode", mode_name(*h)]),
            Input::Layout(i) => json!(["layout", i]),
        }
    }
    pub fn from_json(v: &Value) -> Option<Input> {
        let a = v.as_array()?;
        let tag = a.first()?.as_str()?;
        Some(match tag {
            "bit" => Input::Bit(a.get(1)?.as_u64()? != 0),
            "clear" => Input::Clear,
            "word" => Input::Word(a.get(1)?.as_u64()? as u16),
            "byte" => Input::Byte(a.get(1)?.as_u64()? as u8),
            "key" => Input::Key(
                key_by_name(a.get(1)?.as_str()?)?,
                state_by_name(a.get(2)?.as_str()?)?,
            ),
            "mode" => Input::Mode(mode_by_name(a.get(1)?.as_str()?)?),
            "layout" => Input::Layout(a.get(1)?.as_u64()? as u8),
            _ => return None,
        })
    }
}

pub fn err_name(e: Error) -> String {
    format!("{:?}", e)
}

pub fn res_frame_bit(r: Result<Option<u8>, Error>) -> Value {
    match r {
        Ok(None) => json!(["none"]),
        Ok(Some(b)) => json!(["byte", b]),
        Err(e) => json!(["err", err_name(e)]),
    }
}
pub fn res_frame_word(r: Result<u8, Error>) -> Value {
    match r {
        Ok(b) => json!(["byte", b]),
        Err(e) => json!(["err", err_name(e)]),
    }
}
pub fn res_scan(r: Result<Option<KeyEvent>, Error>) -> Value {
    match r {
        Ok(None) => json!(["none"]),
        Ok(Some(ev)) => json!(["ev", key_name(ev.code), state_name(ev.state)]),
        Err(e) => json!(["err", err_name(e)]),
    }
}
pub fn decoded_int(d: DecodedKey) -> i64 {
    match d {
        DecodedKey::Unicode(c) => c as u32 as i64,
        DecodedKey::RawKey(k) => -(1 + (k as u8 as i64)),
    }
}
pub fn res_decoded(r: Option<DecodedKey>) -> Value {
    match r {
        None => json!(["none"]),
        Some(d) => json!(["key", decoded_int(d)]),
    }
}

/// A layout that records what it was asked and returns a token naming itself and the key.
pub type QueryLog = Rc<RefCell<Option<(u8, KeyCode, u32, HandleControl)>>>;
pub struct RecLayout {
    pub id: u8,
    pub log: QueryLog,
}
impl core::fmt::Debug for RecLayout {
    fn fmt(&self, f: &mut core::fmt::Formatter<'_>) -> core::fmt::Result {
        write!(f, "Rec({})", self.id)
    }
}
pub const TOKEN_BASE: u32 = 0xF0000;
impl KeyboardLayout for RecLayout {
    fn map_keycode(&self, k: KeyCode, m: &Modifiers, h: HandleControl) -> DecodedKey {
        *self.log.borrow_mut() = Some((self.id, k, mods_to_int(m), h));
        DecodedKey::Unicode(char::from_u32(TOKEN_BASE + (self.id as u32) * 128 + (k as u8 as u32)).unwrap())
    }
}
fn query_json(log: &QueryLog) -> Value {
    match log.borrow_mut().take() {
        None => json!(["noq"]),
        Some((id, k, m, h)) => json!(["q", id, key_name(k), m, mode_name(h)]),
    }
}

pub fn any_layout(i: u8) -> AnyLayout {
    match i {
        0 => AnyLayout::DVP104Key(DVP104Key),
        1 => AnyLayout::Dvorak104Key(Dvorak104Key),
        2 => AnyLayout::Us104Key(Us104Key),
        3 => AnyLayout::Uk105Key(Uk105Key),
        4 => AnyLayout::Jis109Key(Jis109Key),
        5 => AnyLayout::Azerty(Azerty),
        6 => AnyLayout::Colemak(Colemak),
        7 => AnyLayout::De105Key(De105Key),
        8 => AnyLayout::No105Key(No105Key),
        9 => AnyLayout::FiSe105Key(FiSe105Key),
        _ => panic!("harness: no such layout index"),
    }
}
pub const LAYOUT_NAMES: [&str; 10] = [
    "DVP104Key", "Dvorak104Key", "Us104Key", "Uk105Key", "Jis109Key", "Azerty", "Colemak",
    "De105Key", "No105Key", "FiSe105Key",
];
/// AnyLayout wrapper with a Debug rendering (AnyLayout itself derives nothing).
pub struct DbgAny(pub u8, pub AnyLayout);
impl core::fmt::Debug for DbgAny {
    fn fmt(&self, f: &mut core::fmt::Formatter<'_>) -> core::fmt::Result {
        write!(f, "Any({})", self.0)
    }
}
impl KeyboardLayout for DbgAny {
    fn map_keycode(&self, k: KeyCode, m: &Modifiers, h: HandleControl) -> DecodedKey {
        self.1.map_keycode(k, m, h)
    }
}

/// What a step produced: result, the layout query it made (event machines), or a panic.
pub struct Step {
    pub out: Value,
    pub query: Value,
}

pub trait Machine {
    /// opaque identity of the complete object state
    fn id(&self) -> String;
    /// publicly observable state, if the API exposes any
    fn obs(&self) -> Value {
        json!([])
    }
    fn apply(&mut self, i: &Input) -> Step;
    /// per-stage opaque ids (frame, scan, event) for composite objects
    fn stage_ids(&self) -> Option<[String; 3]> {
        None
    }
}

fn unsupported(name: &str, i: &Input) -> ! {
    eprintln!("pkv: harness error: machine {} does not take input {:?}", name, i);
    std::process::exit(2)
}
fn plain(out: Value) -> Step {
    Step { out, query: json!(["noq"]) }
}

pub struct FrameM(pub Ps2Decoder);
impl Machine for FrameM {
    fn id(&self) -> String {
        format!("{:?}", self.0)
    }
    fn apply(&mut self, i: &Input) -> Step {
        plain(match i {
            Input::Bit(b) => res_frame_bit(self.0.add_bit(*b)),
            Input::Clear => {
                self.0.clear();
                json!(["none"])
            }
            Input::Word(w) => res_frame_word(self.0.add_word(*w)),
            _ => unsupported("frame", i),
        })
    }
}

pub struct ScanM<S: ScancodeSet + core::fmt::Debug>(pub S);
impl<S: ScancodeSet + core::fmt::Debug> Machine for ScanM<S> {
    fn id(&self) -> String {
        format!("{:?}", self.0)
    }
    fn apply(&mut self, i: &Input) -> Step {
        plain(match i {
            Input::Byte(b) => res_scan(self.0.advance_state(*b)),
            _ => unsupported("scan", i),
        })
    }
}

fn obs_mods(m: &Modifiers, h: HandleControl) -> Value {
    json!([mods_to_int(m), mode_name(h)])
}

/// EventDecoder with the recording layout. Its modifiers are private; the Debug rendering is
/// the identity, and the modifiers the layout is shown are recorded per query.
pub struct EventM {
    pub d: EventDecoder<RecLayout>,
    pub log: QueryLog,
}
impl EventM {
    pub fn new(mode: HandleControl) -> Self {
        let log: QueryLog = Rc::new(RefCell::new(None));
        EventM { d: EventDecoder::new(RecLayout { id: 0, log: log.clone() }, mode), log }
    }
}
impl Machine for EventM {
    fn id(&self) -> String {
        format!("{:?}", self.d)
    }
    fn obs(&self) -> Value {
        json!([-1, mode_name(self.d.get_ctrl_handling())])
    }
    fn apply(&mut self, i: &Input) -> Step {
        let out = match i {
            Input::Key(k, s) => res_decoded(self.d.process_keyevent(KeyEvent::new(*k, *s))),
            Input::Mode(h) => {
                self.d.set_ctrl_handling(*h);
                json!(["none"])
            }
            Input::Layout(l) => {
                self.d.change_layout(RecLayout { id: *l, log: self.log.clone() });
                json!(["none"])
            }
            _ => unsupported("event", i),
        };
        Step { out, query: query_json(&self.log) }
    }
}

/// EventDecoder<AnyLayout> (real layouts, switchable)
pub struct EventAnyM(pub EventDecoder<DbgAny>);
impl Machine for EventAnyM {
    fn id(&self) -> String {
        format!("{:?}", self.0)
    }
    fn obs(&self) -> Value {
        json!([-1, mode_name(self.0.get_ctrl_handling())])
    }
    fn apply(&mut self, i: &Input) -> Step {
        plain(match i {
            Input::Key(k, s) => res_decoded(self.0.process_keyevent(KeyEvent::new(*k, *s))),
            Input::Mode(h) => {
                self.0.set_ctrl_handling(*h);
                json!(["none"])
            }
            Input::Layout(l) => {
                self.0.change_layout(DbgAny(*l, any_layout(*l)));
                json!(["none"])
            }
            _ => unsupported("event-any", i),
        })
    }
}

/// The composite Keyboard with the recording layout.
pub struct KbM<S: ScancodeSet + core::fmt::Debug> {
    pub k: Keyboard<RecLayout, S>,
    pub log: QueryLog,
}
impl<S: ScancodeSet + core::fmt::Debug> KbM<S> {
    pub fn new(set: S, mode: HandleControl) -> Self {
        let log: QueryLog = Rc::new(RefCell::new(None));
        KbM { k: Keyboard::new(set, RecLayout { id: 0, log: log.clone() }, mode), log }
    }
}
/// split "Keyboard { ps2_decoder: .., scancode_set: .., event_decoder: .. }" into its three
/// field renderings without interpreting them (top-level comma split by brace depth)
fn split_fields(s: &str) -> Vec<String> {
    let inner = match (s.find('{'), s.rfind('}')) {
        (Some(a), Some(b)) if a < b => &s[a + 1..b],
        _ => return vec![s.to_string()],
    };
    let mut out = Vec::new();
    let mut depth = 0i32;
    let mut cur = String::new();
    for ch in inner.chars() {
        match ch {
            '{' | '(' | '[' => {
                depth += 1;
                cur.push(ch)
            }
            '}' | ')' | ']' => {
                depth -= 1;
                cur.push(ch)
            }
            ',' if depth == 0 => {
                out.push(cur.trim().to_string());
                cur.clear()
            }
            _ => cur.push(ch),
        }
    }
    if !cur.trim().is_empty() {
        out.push(cur.trim().to_string());
    }
    out
}
impl<S: ScancodeSet + core::fmt::Debug> Machine for KbM<S> {
    fn id(&self) -> String {
        format!("{:?}", self.k)
    }
    fn obs(&self) -> Value {
        obs_mods(self.k.get_modifiers(), self.k.get_ctrl_handling())
    }
    fn stage_ids(&self) -> Option<[String; 3]> {
        let f = split_fields(&self.id());
        if f.len() == 3 {
            Some([f[0].clone(), f[1].clone(), f[2].clone()])
        } else {
            None
        }
    }
    fn apply(&mut self, i: &Input) -> Step {
        let out = match i {
            Input::Bit(b) => res_scan(self.k.add_bit(*b)),
            Input::Clear => {
                self.k.clear();
                json!(["none"])
            }
            Input::Word(w) => res_scan(self.k.add_word(*w)),
            Input::Byte(b) => res_scan(self.k.add_byte(*b)),
            Input::Key(k, s) => res_decoded(self.k.process_keyevent(KeyEvent::new(*k, *s))),
            Input::Mode(h) => {
                self.k.set_ctrl_handling(*h);
                json!(["none"])
            }
            _ => unsupported("keyboard", i),
        };
        Step { out, query: query_json(&self.log) }
    }
}

/// The composite Keyboard with a real (runtime-selected) layout.
pub struct KbAnyM<S: ScancodeSet + core::fmt::Debug>(pub Keyboard<DbgAny, S>);
impl<S: ScancodeSet + core::fmt::Debug> Machine for KbAnyM<S> {
    fn id(&self) -> String {
        format!("{:?}", self.0)
    }
    fn obs(&self) -> Value {
        obs_mods(self.0.get_modifiers(), self.0.get_ctrl_handling())
    }
    fn apply(&mut self, i: &Input) -> Step {
        plain(match i {
            Input::Bit(b) => res_scan(self.0.add_bit(*b)),
            Input::Clear => {
                self.0.clear();
                json!(["none"])
            }
            Input::Word(w) => res_scan(self.0.add_word(*w)),
            Input::Byte(b) => res_scan(self.0.add_byte(*b)),
            Input::Key(k, s) => res_decoded(self.0.process_keyevent(KeyEvent::new(*k, *s))),
            Input::Mode(h) => {
                self.0.set_ctrl_handling(*h);
                json!(["none"])
            }
            _ => unsupported("keyboard(any)", i),
        })
    }
}

/// Construct a machine by component name. No const/static construction anywhere.
pub fn make(comp: &str) -> Box<dyn Machine> {
    let map = HandleControl::MapLettersToUnicode;
    match comp {
        "frame" => Box::new(FrameM(Ps2Decoder::new())),
        // the second public constructor of each stage (Default) must behave as new()
        "frame_default" => Box::new(FrameM(Ps2Decoder::default())),
        "set1_default" => Box::new(ScanM(ScancodeSet1::default())),
        "set2_default" => Box::new(ScanM(ScancodeSet2::default())),
        "set1" => Box::new(ScanM(ScancodeSet1::new())),
        "set2" => Box::new(ScanM(ScancodeSet2::new())),
        "event" => Box::new(EventM::new(map)),
        // constructed with the other Ctrl-handling mode: the constructor argument must be honoured
        "event_ign" => Box::new(EventM::new(HandleControl::Ignore)),
        "kb2_ign" => Box::new(KbM::new(ScancodeSet2::new(), HandleControl::Ignore)),
        "eventany" => Box::new(EventAnyM(EventDecoder::new(DbgAny(2, any_layout(2)), map))),
        c if c.starts_with("eventany:") => {
            let idx: u8 = c[9..].parse().expect("layout index");
            Box::new(EventAnyM(EventDecoder::new(DbgAny(idx, any_layout(idx)), map)))
        }
        "kb1" => Box::new(KbM::new(ScancodeSet1::new(), map)),
        "kb2" => Box::new(KbM::new(ScancodeSet2::new(), map)),
        c if c.starts_with("kbl2:") || c.starts_with("kbl1:") => {
            // Keyboard with a real layout, by name: kbl2:Uk105Key
            let name = &c[5..];
            let idx = LAYOUT_NAMES.iter().position(|x| *x == name).unwrap_or_else(|| {
                eprintln!("pkv: unknown layout {}", name);
                std::process::exit(2)
            }) as u8;
            if c.starts_with("kbl2:") {
                Box::new(KbAnyM(Keyboard::new(ScancodeSet2::new(), DbgAny(idx, any_layout(idx)), map)))
            } else {
                Box::new(KbAnyM(Keyboard::new(ScancodeSet1::new(), DbgAny(idx, any_layout(idx)), map)))
            }
        }
        _ => {
            eprintln!("pkv: unknown component {}", comp);
            std::process::exit(2)
        }
    }
}

/// Apply with panic capture: a panic is an observation.
pub fn apply_caught(m: &mut Box<dyn Machine>, i: &Input) -> Result<Step, String> {
    let r = catch_unwind(AssertUnwindSafe(|| m.apply(i)));
    match r {
        Ok(s) => Ok(s),
        Err(e) => {
            let msg = if let Some(s) = e.downcast_ref::<&str>() {
                s.to_string()
            } else if let Some(s) = e.downcast_ref::<String>() {
                s.clone()
            } else {
                "panic".to_string()
            };
            Err(msg)
        }
    }
}
