//! pkv - observer/driver harness binding the TLA+ specification to the real pc-keyboard code.
//! It enumerates, drives, catches panics and prints JSON. It never judges.
mod graph;
mod isolation;
mod keys;
mod link;
mod machines;
mod replay;
mod tables;
mod trace;
mod world;

use std::fs::File;
use std::io::{BufWriter, Write};

fn usage() -> ! {
    eprintln!(
        "usage: pkv graph <component> <alphabet> <cap> <out.ndjson> [alphabet.json]\n       \
         pkv table <layouts|preds|words> <out.ndjson>\n       \
         pkv run <component> <inputs.json>   (inputs: JSON array of inputs; prints one line per step)"
    );
    std::process::exit(2)
}

fn main() {
    // a panic inside the code under test is data, not noise on stderr
    std::panic::set_hook(Box::new(|_| {}));
    keys::check_keys();
    let args: Vec<String> = std::env::args().collect();
    if args.len() < 2 {
        usage();
    }
    match args[1].as_str() {
        "graph" => {
            if args.len() < 6 {
                usage();
            }
            let cap: usize = args[4].parse().unwrap_or_else(|_| usage());
            let mut w = BufWriter::new(File::create(&args[5]).expect("create output"));
            let mut aw = args.get(6).map(|p| BufWriter::new(File::create(p).expect("create alphabet")));
            graph::extract(
                &args[2],
                &args[3],
                cap,
                &mut w,
                aw.as_mut().map(|x| x as &mut dyn Write),
            );
            w.flush().unwrap();
        }
        "table" => {
            if args.len() < 4 {
                usage();
            }
            let mut w = BufWriter::new(File::create(&args[3]).expect("create output"));
            match args[2].as_str() {
                "eventlayouts" => tables::eventlayouts(args.get(4).expect("event table json"), &mut w),
                "layouts" => tables::layouts(&mut w),
                "preds" => tables::preds(&mut w),
                "words" => tables::words(&mut w),
                _ => usage(),
            }
            w.flush().unwrap();
        }
        "run" => {
            if args.len() < 4 {
                usage();
            }
            let txt = std::fs::read_to_string(&args[3]).expect("read inputs");
            let v: serde_json::Value = serde_json::from_str(&txt).expect("parse inputs");
            let mut m = machines::make(&args[2]);
            println!("{}", serde_json::json!({"step": 0, "id": m.id(), "obs": m.obs()}));
            for (n, iv) in v.as_array().expect("array").iter().enumerate() {
                let inp = machines::Input::from_json(iv).expect("bad input");
                match machines::apply_caught(&mut m, &inp) {
                    Ok(s) => println!(
                        "{}",
                        serde_json::json!({"step": n + 1, "in": iv, "out": s.out, "q": s.query, "id": m.id(), "obs": m.obs()})
                    ),
                    Err(msg) => {
                        println!("{}", serde_json::json!({"step": n + 1, "in": iv, "out": ["panic", msg]}));
                        break;
                    }
                }
            }
        }
        "trace" => {
            // pkv trace noise <component> <seed> <runs> <calls-per-run> <out.ndjson>
            // pkv trace script <component> <scenarios.json> <out.ndjson>
            if args.len() >= 8 && args[2] == "noise" {
                let mut w = BufWriter::new(File::create(&args[7]).expect("create output"));
                trace::noise(&args[3], args[4].parse().expect("seed"), args[5].parse().expect("runs"), args[6].parse().expect("n"), &mut w);
                w.flush().unwrap();
            } else if args.len() >= 9 && args[2] == "full" {
                // pkv trace full <component> <seed> <runs> <calls-per-run> <scenarios.json> <out.ndjson>
                let txt = std::fs::read_to_string(&args[7]).expect("read scenarios");
                let v: serde_json::Value = serde_json::from_str(&txt).expect("parse scenarios");
                let mut w = BufWriter::new(File::create(&args[8]).expect("create output"));
                trace::scripted(&args[3], &v, &mut w);
                let (seed, runs, n): (u64, usize, usize) =
                    (args[4].parse().expect("seed"), args[5].parse().expect("runs"), args[6].parse().expect("n"));
                trace::noise(&args[3], seed, runs, n, &mut w);
                trace::typist(&args[3], seed, runs, n, &mut w);
                trace::pipeline(&args[3], seed, runs, n, &mut w);
                w.flush().unwrap();
            } else if args.len() >= 6 && args[2] == "systematic" {
                // pkv trace systematic <component> <length> <out.ndjson>
                let mut w = BufWriter::new(File::create(&args[5]).expect("create output"));
                trace::systematic(&args[3], args[4].parse().expect("length"), &mut w);
                w.flush().unwrap();
            } else if args.len() >= 6 && args[2] == "script" {
                let txt = std::fs::read_to_string(&args[4]).expect("read scenarios");
                let v: serde_json::Value = serde_json::from_str(&txt).expect("parse scenarios");
                let mut w = BufWriter::new(File::create(&args[5]).expect("create output"));
                trace::scripted(&args[3], &v, &mut w);
                w.flush().unwrap();
            } else {
                usage();
            }
        }
        "replay-table" => {
            // pkv replay-table <set1|set2|frame|event|words> <table.json> <depth-or-stride>
            if args.len() < 5 {
                usage();
            }
            let n: usize = args[4].parse().expect("depth/stride");
            let rep = replay::Report::new();
            match args[2].as_str() {
                "set1" | "set2" => replay::scan(&replay::load(&args[3]), &args[2], n, &rep),
                "frame" => replay::frame(&replay::load(&args[3]), n, &rep),
                "event" => replay::event(&replay::load(&args[3]), n, &rep),
                "words" => {
                    let mut cnt = 0u64;
                    for b in replay::words(&args[3], &mut cnt) {
                        println!("@@M {}", b);
                    }
                    rep.steps.fetch_add(cnt, std::sync::atomic::Ordering::Relaxed);
                    rep.seqs.fetch_add(cnt, std::sync::atomic::Ordering::Relaxed);
                }
                _ => usage(),
            }
            println!(
                "@@S {}",
                serde_json::json!({"table": args[2], "sequences": rep.seqs.load(std::sync::atomic::Ordering::Relaxed),
                                   "calls": rep.steps.load(std::sync::atomic::Ordering::Relaxed), "mismatching_transitions": rep.count()})
            );
        }
        "isolation" => {
            // pkv isolation <kb1|kb2> <stride> <out.ndjson>
            if args.len() < 5 {
                usage();
            }
            let mut w = BufWriter::new(File::create(&args[4]).expect("create output"));
            isolation::sweep(&args[2], args[3].parse().expect("stride"), &mut w);
            w.flush().unwrap();
        }
        "replay-world" => {
            // pkv replay-world <behaviours.ndjson> <layout name>
            if args.len() < 4 {
                usage();
            }
            world::replay(&args[2], &args[3]);
        }
        "replay-link" => {
            // pkv replay-link <behaviours.ndjson>
            if args.len() < 3 {
                usage();
            }
            link::replay(&args[2]);
        }
        "cells" => {
            // re-evaluate layout cells: JSON array of [object, key, modifiers, mode]
            if args.len() < 3 {
                usage();
            }
            let txt = std::fs::read_to_string(&args[2]).expect("read cells");
            let v: serde_json::Value = serde_json::from_str(&txt).expect("parse cells");
            for c in v.as_array().expect("array") {
                let obj = c[0].as_str().expect("obj");
                let key = keys::key_by_name(c[1].as_str().expect("key")).expect("key name");
                let m = c[2].as_u64().expect("mods") as u32;
                let h = keys::mode_by_name(c[3].as_str().expect("mode")).expect("mode name");
                println!("{}", serde_json::json!({"cell": c, "out": tables::one_cell(obj, key, m, h)}));
            }
        }
        _ => usage(),
    }
}
