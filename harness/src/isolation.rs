//! C18, per-operation non-interference sweep. For every context (frame state x scancode context x
//! a few event states) of a real Keyboard and EVERY input of every entry point, report
//!   - for which inputs the opaque id of each stage changed,
//!   - for which inputs the returned value differs from the value returned in the reference
//!     context (the same fed-stage state, the other stages in their initial state).
//! The harness only records equalities between observations; which stage a call may touch is
//! stated in Conf_Isolation.tla, which judges the records.
use crate::keys::*;
use crate::machines::*;
use pc_keyboard::{HandleControl, KeyCode, KeyState};
use serde_json::{json, Value};
use std::collections::{HashMap, VecDeque};
use std::io::Write;
use std::sync::Mutex;

fn build(comp: &str, ev: &[Input], bytes: &[u8], bits: &[bool]) -> Box<dyn Machine> {
    let mut m = make(comp);
    for e in ev {
        let _ = apply_caught(&mut m, e);
    }
    for b in bytes {
        let _ = apply_caught(&mut m, &Input::Byte(*b));
    }
    for b in bits {
        let _ = apply_caught(&mut m, &Input::Bit(*b));
    }
    m
}

fn ops() -> Vec<Input> {
    let mut v = Vec::new();
    for k in ALL_KEYS {
        for s in [KeyState::Down, KeyState::Up, KeyState::SingleShot] {
            v.push(Input::Key(k, s));
        }
    }
    v.push(Input::Mode(HandleControl::MapLettersToUnicode));
    v.push(Input::Mode(HandleControl::Ignore));
    for b in 0..=255u8 {
        v.push(Input::Byte(b));
    }
    for w in 0..2048u16 {
        v.push(Input::Word(w));
    }
    v.push(Input::Bit(false));
    v.push(Input::Bit(true));
    v.push(Input::Clear);
    v
}

/// scancode contexts reachable through add_byte (BFS on the scancode stage's opaque id)
fn scan_contexts(comp: &str) -> Vec<Vec<u8>> {
    let mut seen: HashMap<String, Vec<u8>> = HashMap::new();
    let mut q = VecDeque::new();
    let m0 = make(comp);
    let id0 = m0.stage_ids().map(|s| s[1].clone()).unwrap_or_default();
    seen.insert(id0, vec![]);
    q.push_back(vec![]);
    let mut out = vec![vec![]];
    while let Some(acc) = q.pop_front() {
        if acc.len() >= 4 {
            continue;
        }
        for b in 0..=255u8 {
            let mut m = build(comp, &[], &acc, &[]);
            if apply_caught(&mut m, &Input::Byte(b)).is_err() {
                continue;
            }
            let id = m.stage_ids().map(|s| s[1].clone()).unwrap_or_default();
            if !seen.contains_key(&id) && seen.len() < 64 {
                let mut a = acc.clone();
                a.push(b);
                seen.insert(id, a.clone());
                out.push(a.clone());
                q.push_back(a);
            }
        }
    }
    out
}

pub fn sweep(comp: &str, stride: usize, w: &mut dyn Write) {
    let ops = ops();
    let ctxs = scan_contexts(comp);
    let evs: Vec<Vec<Input>> = vec![
        vec![],
        vec![Input::Key(KeyCode::LShift, KeyState::Down), Input::Key(KeyCode::CapsLock, KeyState::Down)],
        vec![Input::Key(KeyCode::NumpadLock, KeyState::Down), Input::Key(KeyCode::RControl2, KeyState::Down),
             Input::Mode(HandleControl::Ignore)],
        vec![Input::Key(KeyCode::RAltGr, KeyState::Down), Input::Key(KeyCode::LControl, KeyState::Down)],
    ];
    // frame prefixes: all bit strings of length 0..10 (sampled by stride, always including a few)
    let mut prefixes: Vec<Vec<bool>> = Vec::new();
    let mut idx = 0usize;
    for n in 0..=10usize {
        for v in 0..(1usize << n) {
            if idx % stride == 0 || n <= 1 || (n == 10 && v % 97 == 0) {
                prefixes.push((0..n).map(|i| (v >> i) & 1 == 1).collect());
            }
            idx += 1;
        }
    }
    // reference results: the fed stage in the same state, the other stages initial
    let res_of = |m: &mut Box<dyn Machine>, i: &Input| -> String {
        match apply_caught(m, i) {
            Ok(s) => format!("{}|{}", s.out, s.query),
            Err(msg) => format!("panic:{}", msg),
        }
    };
    let out: Mutex<Vec<String>> = Mutex::new(Vec::new());
    let total = prefixes.len() * ctxs.len() * evs.len();
    let next = std::sync::atomic::AtomicUsize::new(0);
    let threads = std::thread::available_parallelism().map(|x| x.get()).unwrap_or(4).min(16);
    std::thread::scope(|sc| {
        for _ in 0..threads {
            sc.spawn(|| loop {
                let t = next.fetch_add(1, std::sync::atomic::Ordering::Relaxed);
                if t >= total {
                    break;
                }
                let (pi, rest) = (t / (ctxs.len() * evs.len()), t % (ctxs.len() * evs.len()));
                let (ci, ei) = (rest / evs.len(), rest % evs.len());
                let (bits, bytes, ev) = (&prefixes[pi], &ctxs[ci], &evs[ei]);
                let base = build(comp, ev, bytes, bits);
                let ids0 = match base.stage_ids() {
                    Some(x) => x,
                    None => return,
                };
                let mut changed: [Vec<usize>; 3] = [vec![], vec![], vec![]];
                let mut diff: Vec<usize> = Vec::new();
                let mut panics: Vec<usize> = Vec::new();
                for (oi, op) in ops.iter().enumerate() {
                    let mut m = build(comp, ev, bytes, bits);
                    let r = res_of(&mut m, op);
                    if r.starts_with("panic:") {
                        panics.push(oi + 1);
                        continue;
                    }
                    if let Some(ids) = m.stage_ids() {
                        for s in 0..3 {
                            if ids[s] != ids0[s] {
                                changed[s].push(oi + 1);
                            }
                        }
                    }
                    // reference context: only the stage(s) this kind of call reads keep their state
                    let mut rf = match op {
                        Input::Key(..) | Input::Mode(..) => build(comp, ev, &[], &[]),
                        Input::Byte(..) | Input::Word(..) => build(comp, &[], bytes, &[]),
                        _ => build(comp, &[], bytes, bits),
                    };
                    if res_of(&mut rf, op) != r {
                        diff.push(oi + 1);
                    }
                }
                // run-length encode: [[lo, hi], ...]
                let rl = |v: &Vec<usize>| -> Vec<[usize; 2]> {
                    let mut out: Vec<[usize; 2]> = Vec::new();
                    for &x in v {
                        match out.last_mut() {
                            Some(l) if l[1] + 1 == x => l[1] = x,
                            _ => out.push([x, x]),
                        }
                    }
                    out
                };
                let changed = [rl(&changed[0]), rl(&changed[1]), rl(&changed[2])];
                let diff = rl(&diff);
                let panics = rl(&panics);
                let rec = json!({"bits": bits.iter().map(|b| *b as u8).collect::<Vec<u8>>(), "bytes": bytes,
                                 "ev": ev.iter().map(|e| e.to_json()).collect::<Vec<Value>>(),
                                 "changed": changed, "diff": diff, "panics": panics, "nops": ops.len()});
                out.lock().unwrap().push(rec.to_string());
            });
        }
    });
    let mut lines = out.into_inner().unwrap();
    lines.sort();
    for l in lines {
        writeln!(w, "{}", l).unwrap();
    }
}
